"""C19 — external-tool output is imported totally and faithfully (E2, bounded strings).

Part L (labels): the real `unify_classification` on every printable-ASCII label of length <= 8; per path the result is
  compared with a finite reference table ({n?}·core·{a?} -> class) by two unsat queries.
Part U (lines): `parse_unit_id`, `_process_interaction_line`, `parse_fr3d_output` on lines assembled from symbolic
  fields (unit ids with 4..9 '|'-separated fields, number field either an integer rendering or digit-free, 2..4 tab
  separated parts): never raises; a line with two well-formed ids yields exactly one interaction between exactly those
  residues in the right list; other lines are skipped; two calls in one process give equal results.
Part D (DSSR): `parse_dssr_output` with `open`/`orjson.loads` stubbed by a document whose LW / nt names are symbolic.
"""
import itertools
import multiprocessing
import sys
import time

PID = "C19"


# ------------------------------------------------------------------------------------ reference table
def reference_table():
    """label -> (category, class name) for every recognised label"""
    cores = {}
    for ct in "cCtT":
        for e1 in "WwHhSs":
            for e2 in "WwHhSs":
                cores[ct + e1 + e2] = ("base-pair", ct.lower() + e1.upper() + e2.upper())
    for lab, top in (("s33", "downward"), ("s55", "upward"), ("s35", "outward"), ("s53", "inward")):
        cores[lab] = ("stacking", top)
    for d in "0123456789":
        cores[d + "BPh"] = ("base-phosphate", d + "BPh")
        cores[d + "BR"] = ("base-ribose", d + "BR")
    table = {}
    for core, cls in cores.items():
        for pre in ("", "n"):
            for suf in ("", "a"):
                lab = pre + core + suf
                if lab in table and table[lab] != cls:
                    raise AssertionError(f"ambiguous reference label {lab}")
                table[lab] = cls
    return table


def result_class(out):
    cat, cls = out
    if cls is None:
        return (cat, None)
    return (cat, cls.value)


def ref_class(label):
    return reference_table().get(label, ("other", None))


# ------------------------------------------------------------------------------------ Part L
def job_labels(cap):
    sys.path.insert(0, "/verif")
    import z3
    from symx.engine import Engine
    from symx import bstr as B
    import rnapolis.adapter as AD
    eng = Engine(timeout_ms=20000)
    ns = B.instrument_module_functions(AD, ["unify_classification"], eng)
    lab = B.bvar(eng, "label", cap)
    table = reference_table()
    t0 = time.time()
    paths = eng.explore(lambda: ns["unify_classification"](lab))
    res = {"name": f"labels<= {cap}", "paths": len(paths), "verdicts": [], "classes": set()}

    def eq(t):
        if len(t) > cap:
            return z3.BoolVal(False)
        return z3.And(lab.lnz() == len(t), *[lab.chars[k] == ord(c) for k, c in enumerate(t)])
    for path, out in paths:
        if isinstance(out, Exception):
            v, m, _ = eng.prove(path, z3.BoolVal(True))
            res["verdicts"].append({"ob": f"unify_classification raised {type(out).__name__}: {out}", "v": v, "key": "unify_classification:exception",
                                    "w": lab.concretize(m) if m is not None else None})
            continue
        got = result_class(out)
        res["classes"].add(got)
        wrong = [eq(t) for t, cls in table.items() if cls != got]
        v, m, _ = eng.prove(path, z3.Or(wrong))
        res["verdicts"].append({"ob": f"a label of another class is classified as {got}", "v": v, "key": "unify_classification:wrong-class",
                                "w": lab.concretize(m) if m is not None else None})
        if got[0] != "other":
            mine = [eq(t) for t, cls in table.items() if cls == got]
            v, m, _ = eng.prove(path, z3.Not(z3.Or(mine)))
            res["verdicts"].append({"ob": f"an unrecognised label is classified as {got}", "v": v, "key": "unify_classification:invented-class",
                                    "w": lab.concretize(m) if m is not None else None})
    # reachability: every class of the table is produced on some path
    want = set(table.values()) | {("other", None)}
    res["missing_classes"] = sorted(map(str, want - res["classes"]))
    res["classes"] = len(res["classes"])
    res.update(queries=eng.nq, solver_s=round(eng.tq, 2), unknown=eng.unknown, wall_s=round(time.time() - t0, 2))
    return res


REPLAY_LABEL = '''
sys.path.insert(0, {verif!r})
from harness.c19 import ref_class, result_class
from rnapolis.adapter import unify_classification
lab = {lab!r}
try:
    got = result_class(unify_classification(lab))
except Exception as e:
    print("raised", type(e).__name__, e); sys.exit(1)
print(repr(lab), "->", got, "reference", ref_class(lab))
sys.exit(1 if got != ref_class(lab) else 0)
'''

# ------------------------------------------------------------------------------------ Part U
LABELS = ["cWW", "ncSs", "tHS", "tWHa", "s35", "ns55", "s33a", "3BPh", "n0BPh", "7BR", "xyz", "cWX", "", "nsa"]


def job_lines(spec):
    """spec = (nf1, nf2, nparts, num1_kind, num2_kind)"""
    nf1, nf2, nparts, k1, k2 = spec
    sys.path.insert(0, "/verif")
    import z3
    from symx.engine import Engine, SInt
    from symx import bstr as B
    import rnapolis.adapter as AD
    from rnapolis.common import BasePair, Stacking, BaseRibose, BasePhosphate, OtherInteraction
    eng = Engine(timeout_ms=20000)
    ns = B.instrument_module_functions(AD, ["parse_unit_id", "unify_classification", "_process_interaction_line"], eng)
    EX = "|\t \n\r\x0b\x0c+_"

    def unit(tag, nf, kind):
        f = {}
        f["pdb"] = B.bvar(eng, tag + "pdb", 4, excl=EX)
        f["model"] = B.bvar(eng, tag + "model", 2, excl=EX)
        f["chain"] = B.bvar(eng, tag + "chain", 3, excl=EX)
        f["name"] = B.bvar(eng, tag + "name", 3, excl=EX)
        if kind == "int":
            f["n"], f["num"] = B.int_field(eng, tag + "num", 4, True)
        else:
            f["n"], f["num"] = None, B.bvar(eng, tag + "num", 3, charset="ABXYZabcxyz.-?*")
            # a digit-free field: never an integer literal
        f["atom"] = B.bvar(eng, tag + "atom", 3, excl=EX)
        f["alt"] = B.bvar(eng, tag + "alt", 1, excl=EX)
        f["icode"] = B.bvar(eng, tag + "icode", 1, excl=EX)
        f["sym"] = B.bvar(eng, tag + "sym", 5, excl=EX)
        order = ["pdb", "model", "chain", "name", "num", "atom", "alt", "icode", "sym"][:nf]
        segs = []
        for i, k in enumerate(order):
            if i:
                segs.append("|")
            segs.append(f[k])
        return f, B.Rope(eng, segs)._norm()
    u1, id1 = unit("a", nf1, k1)
    u2, id2 = unit("b", nf2, k2)
    sel = eng.int("label_sel", 0, len(LABELS) - 1)
    extra = B.bvar(eng, "extra", 3, excl="\t\n\r")
    data_keys = ["base_pairs", "stackings", "base_ribose_interactions", "base_phosphate_interactions", "other_interactions"]

    def run():
        label = LABELS[sel.concretize()]
        parts = [id1, label, id2, extra][:nparts] if nparts <= 4 else [id1, label, id2, extra, "0"]
        if nparts == 2:
            parts = [id1, label]
        segs = []
        for i, p in enumerate(parts):
            if i:
                segs.append("\t")
            segs.append(p)
        line = B.Rope(eng, segs)._norm()
        data = {k: [] for k in data_keys}
        ok = ns["_process_interaction_line"](line, data)
        return label, ok, data
    t0 = time.time()
    paths = eng.explore(run)
    res = {"name": f"line:{spec}", "paths": len(paths), "verdicts": [], "reach": 0}
    catlist = {"base-pair": ("base_pairs", BasePair), "stacking": ("stackings", Stacking), "base-ribose": ("base_ribose_interactions", BaseRibose),
               "base-phosphate": ("base_phosphate_interactions", BasePhosphate), "other": ("other_interactions", OtherInteraction)}
    wellformed = nparts >= 3 and nf1 >= 5 and nf2 >= 5 and k1 == "int" and k2 == "int"

    def wit(m):
        if m is None:
            return None
        return {"id1": B.conc(id1, m), "id2": B.conc(id2, m), "label": LABELS[m.eval(sel.e, model_completion=True).as_long()],
                "extra": B.conc(extra, m), "nparts": nparts}
    for path, out in paths:
        if isinstance(out, Exception):
            v, m, _ = eng.prove(path, z3.BoolVal(True))
            res["verdicts"].append({"ob": f"_process_interaction_line raised {type(out).__name__}: {out}", "v": v,
                                    "key": "_process_interaction_line:exception", "w": wit(m)})
            continue
        label, ok, data = out
        total = sum(len(v) for v in data.values())
        if not wellformed:
            bad = (ok is not False) or total != 0
            if bad:
                v, m, _ = eng.prove(path, z3.BoolVal(True))
                res["verdicts"].append({"ob": f"malformed line not skipped (returned {ok}, {total} interactions)", "v": v,
                                        "key": "_process_interaction_line:not-skipped", "w": wit(m)})
            else:
                res["verdicts"].append({"ob": "malformed line skipped", "v": "unsat", "key": "-", "w": None})
            continue
        res["reach"] += 1
        cat, cls = ref_class(label)
        lst, typ = catlist[cat]
        if ok is not True or total != 1 or len(data[lst]) != 1 or type(data[lst][0]) is not typ:
            v, m, _ = eng.prove(path, z3.BoolVal(True))
            res["verdicts"].append({"ob": f"well-formed line with label {label!r}: returned {ok}, lists { {k: len(v) for k, v in data.items()} }, "
                                    f"expected one {typ.__name__}", "v": v, "key": "_process_interaction_line:wrong-list", "w": wit(m)})
            continue
        it = data[lst][0]
        got_cls = getattr(it, {"base-pair": "lw", "stacking": "topology", "base-ribose": "br", "base-phosphate": "bph"}.get(cat, "nt1"), None)
        if cat != "other" and (got_cls is None or got_cls.value != cls):
            v, m, _ = eng.prove(path, z3.BoolVal(True))
            res["verdicts"].append({"ob": f"label {label!r} filed as {got_cls}", "v": v, "key": "_process_interaction_line:wrong-class", "w": wit(m)})
        # residues: exactly the fields written
        neg = []
        for nt, u, nf in ((it.nt1, u1, nf1), (it.nt2, u2, nf2)):
            a = nt.auth
            for got, want in ((a.chain, u["chain"]), (a.name, u["name"])):
                if got is not want:
                    e = (got == want)
                    neg.append(z3.Not(e.e) if hasattr(e, "e") else z3.BoolVal(not e))
            if isinstance(a.number, SInt):
                neg.append(a.number.e != u["n"].e)
            else:
                neg.append(z3.BoolVal(True))
            if nf >= 8:
                ic = u["icode"]
                if a.icode is None:
                    neg.append(ic.lnz() != 0)
                elif a.icode is ic:
                    neg.append(ic.lnz() == 0)
                else:
                    neg.append(z3.BoolVal(True))
            elif a.icode is not None:
                neg.append(z3.BoolVal(True))
            if nt.label is not None:
                neg.append(z3.BoolVal(True))
        v, m, _ = eng.prove(path, z3.Or(neg) if neg else z3.BoolVal(False))
        res["verdicts"].append({"ob": "residues of the interaction differ from the unit ids written (chain, number, insertion code, name)",
                                "v": v, "key": "parse_unit_id:fields", "w": wit(m)})
    res.update(queries=eng.nq, solver_s=round(eng.tq, 2), unknown=eng.unknown, wall_s=round(time.time() - t0, 2), wellformed=wellformed)
    return res


REPLAY_LINE = '''
sys.path.insert(0, {verif!r})
from harness.c19 import ref_class
from rnapolis.adapter import _process_interaction_line, parse_unit_id
w = {w!r}
parts = [w["id1"], w["label"], w["id2"], w["extra"], "0"][:w["nparts"]]
line = "\\t".join(parts)
data = {{k: [] for k in ["base_pairs", "stackings", "base_ribose_interactions", "base_phosphate_interactions", "other_interactions"]}}
def wf(u):
    f = u.split("|")
    try: int(f[4]); return len(f) >= 5
    except Exception: return False
try:
    ok = _process_interaction_line(line, data)
except Exception as e:
    print("raised", type(e).__name__, e); sys.exit(1)
total = sum(len(v) for v in data.values())
well = w["nparts"] >= 3 and wf(w["id1"]) and wf(w["id2"])
print(repr(line), "->", ok, {{k: v for k, v in data.items() if v}})
if not well:
    sys.exit(1 if (ok is not False or total) else 0)
cat, cls = ref_class(w["label"])
key = {{"base-pair": "base_pairs", "stacking": "stackings", "base-ribose": "base_ribose_interactions", "base-phosphate": "base_phosphate_interactions", "other": "other_interactions"}}[cat]
if ok is not True or total != 1 or len(data[key]) != 1: sys.exit(1)
it = data[key][0]
for nt, u in ((it.nt1, w["id1"]), (it.nt2, w["id2"])):
    f = u.split("|")
    ic = f[7] if len(f) >= 8 and f[7] != "" else None
    if (nt.auth.chain, nt.auth.number, nt.auth.icode, nt.auth.name) != (f[2], int(f[4]), ic, f[3]): sys.exit(1)
got = getattr(it, {{"base-pair": "lw", "stacking": "topology", "base-ribose": "br", "base-phosphate": "bph"}}.get(cat, "nt1"), None)
if cat != "other" and (got is None or got.value != cls): sys.exit(1)
sys.exit(0)
'''


# ------------------------------------------------------------------------------------ Part F (file level)
def job_file(spec):
    """parse_fr3d_output with `open` stubbed: fixed lines around one symbolic line; called twice in a row"""
    sys.path.insert(0, "/verif")
    import z3
    from symx.engine import Engine
    from symx import bstr as B
    import rnapolis.adapter as AD
    eng = Engine(timeout_ms=20000)
    ns = B.instrument_module_functions(AD, ["parse_unit_id", "unify_classification", "_process_interaction_line", "parse_fr3d_output"], eng)
    EX = "|\t \n\r\x0b\x0c+_#"
    n1, num1 = B.int_field(eng, "n1", 3, True)
    chain = B.bvar(eng, "chain", 2, excl=EX)
    lead = B.bvar(eng, "lead", 2, charset=" \t")
    first = B.bvar(eng, "first", 1, charset="#Xx")
    sym_line = B.Rope(eng, [lead, first, "XXX|1|", chain, "|G|", num1, "\tcWW\tXXXX|1|B|C|7\t0\n"])
    fixed = ["# comment line\n", "\n", "   \n", "1ABC|1|A|G|1\tcWW\t1ABC|1|A|C|10\t0\n", "1ABC|1|A|G|2\tzzz\t1ABC|1|A|C|9||||\n", "garbage without tabs\n",
             "1ABC|1|A|G|x\tcWW\t1ABC|1|A|C|8\n", "1ABC|1|A|U|3||A|B\ts35\t1ABC|1|A|A|4\t\n"]
    lines = fixed[:4] + [sym_line] + fixed[4:]

    class FakeFile:
        def __init__(self):
            pass

        def __enter__(self):
            return self

        def __exit__(self, *a):
            return False

        def __iter__(self):
            return iter(lines)
    ns["open"] = lambda *a, **k: FakeFile()

    def counts(r):
        return (len(r.basePairs), len(r.stackings), len(r.baseRiboseInteractions), len(r.basePhosphateInteractions), len(r.otherInteractions))

    def run():
        # counts are taken right after each call: results that alias shared state would otherwise look equal
        c1 = counts(ns["parse_fr3d_output"]("/fake/fr3d.txt"))
        c2 = counts(ns["parse_fr3d_output"]("/fake/fr3d.txt"))
        return c1, c2
    t0 = time.time()
    paths = eng.explore(run)
    res = {"name": "parse_fr3d_output", "paths": len(paths), "verdicts": [], "reach": 0}
    for path, out in paths:
        if isinstance(out, Exception):
            v, m, _ = eng.prove(path, z3.BoolVal(True))
            res["verdicts"].append({"ob": f"parse_fr3d_output raised {type(out).__name__}: {out}", "v": v, "key": "parse_fr3d_output:exception",
                                    "w": B.conc(sym_line, m) if m is not None else None})
            continue
        c1, c2 = out
        # fixed part: 1 base pair, 1 other (zzz), 1 stacking ; symbolic line: +1 base pair unless it is a comment ('#' first) -- 'X'/'x' first char
        # makes the pdb field longer, still well-formed
        is_comment = z3.And(first.lnz() == 1, first.chars[0] == ord("#"))
        with_line = (2, 1, 0, 0, 1)
        without = (1, 1, 0, 0, 1)
        res["reach"] += 1
        if c1 == with_line:
            v, m, _ = eng.prove(path, is_comment)
        elif c1 == without:
            v, m, _ = eng.prove(path, z3.Not(is_comment))
        else:
            v, m, _ = eng.prove(path, z3.BoolVal(True))
        res["verdicts"].append({"ob": f"interaction counts {c1} do not match the listing (comment, blank and malformed lines skipped, every well-formed line once)",
                                "v": v, "key": "parse_fr3d_output:counts", "w": B.conc(sym_line, m) if m is not None else None})
        if c2 != c1:
            v, m, _ = eng.prove(path, z3.BoolVal(True))
            res["verdicts"].append({"ob": f"second call in the same process returns {c2}, first call {c1}", "v": v, "key": "parse_fr3d_output:repeat",
                                    "w": B.conc(sym_line, m) if m is not None else None})
        else:
            res["verdicts"].append({"ob": "two calls agree", "v": "unsat", "key": "-", "w": None})
    res.update(queries=eng.nq, solver_s=round(eng.tq, 2), unknown=eng.unknown, wall_s=round(time.time() - t0, 2))
    res["fixed"] = fixed
    return res


REPLAY_FILE = '''
import tempfile, os
from rnapolis.adapter import parse_fr3d_output
fixed = {fixed!r}; sym = {sym!r}
lines = fixed[:4] + [sym] + fixed[4:]
d = tempfile.mkdtemp(); p = os.path.join(d, "fr3d.txt")
open(p, "w").write("".join(lines))
try:
    r1 = parse_fr3d_output(p); r2 = parse_fr3d_output(p)
except Exception as e:
    print("raised", type(e).__name__, e); sys.exit(1)
c = lambda r: (len(r.basePairs), len(r.stackings), len(r.baseRiboseInteractions), len(r.basePhosphateInteractions), len(r.otherInteractions))
want = (1, 1, 0, 0, 1) if sym.strip().startswith("#") else (2, 1, 0, 0, 1)
print(repr(sym), c(r1), c(r2), "expected", want)
sys.exit(1 if (c(r1) != want or c(r2) != c(r1)) else 0)
'''


# ------------------------------------------------------------------------------------ Part D (DSSR)
def job_dssr(spec):
    mode = spec
    sys.path.insert(0, "/verif")
    import z3
    from symx.engine import Engine
    from symx import bstr as B
    import rnapolis.adapter as AD
    from rnapolis.common import LeontisWesthof, ResidueAuth
    from rnapolis.tertiary import Residue3D, Structure3D, Atom
    eng = Engine(timeout_ms=20000)
    ns = B.instrument_module_functions(AD, ["match_dssr_name_to_residue", "match_dssr_lw", "parse_dssr_output"], eng)

    def mkres(chain, num, name, icode=None):
        auth = ResidueAuth(chain, num, icode, name)
        return Residue3D(None, auth, 1, name, (Atom(None, None, auth, 1, "P", 0.0, 0.0, float(num), 1.0),))
    residues = [mkres("A", 1, "G"), mkres("A", 2, "C"), mkres("B", 10, "U", "A")]
    s3 = Structure3D(residues)
    names = [r.full_name for r in residues]          # e.g. A.G1, A.C2, B.U10^A
    LWNAMES = [x.name for x in LeontisWesthof]
    t0 = time.time()
    res = {"name": f"dssr:{mode}", "paths": 0, "verdicts": [], "reach": 0}
    if mode == "lw":
        lw = B.bvar(eng, "LW", 18)
        doc = {"pairs": [{"nt1": "1:" + names[0], "nt2": names[1], "LW": lw}]}
    elif mode == "names":
        nt1 = B.bvar(eng, "nt1", 7, charset="AB.GCU12^0", )
        nt2 = B.bvar(eng, "nt2", 4, charset="AB.GCU12")
        pre = B.bvar(eng, "pre", 2, charset="12")
        pre.excl = pre.excl | {":", ","}
        doc = {"pairs": [{"nt1": B.Rope(eng, [pre, ":", nt1])._norm(), "nt2": nt2, "LW": "cWW"}, {"nt1": names[0], "LW": "tHS"},
                         {"nt1": names[2], "nt2": names[0], "LW": None}, {"nt1": names[2], "nt2": names[0], "LW": "tWH"}]}
        nt1.excl = nt1.excl | {":", ","}
        nt2.excl = nt2.excl | {":", ","}
    else:   # stacks + models
        mid = B.bvar(eng, "mid", 4, charset="AB.GCU12")
        mid.excl = mid.excl | {":", ","}
        inner = {"stacks": [{"nts_long": B.Rope(eng, [names[0] + ",", mid, "," + names[1] + "," + names[2]])}, {"nts_long": names[1]}, {}],
                 "pairs": []}
        doc = {"models": [{"model": 1, "parameters": inner}, {"model": 2, "parameters": {"pairs": [{"nt1": names[0], "nt2": names[1], "LW": "cWW"}]}}]}

    class FakeFile:
        def __enter__(self):
            return self

        def __exit__(self, *a):
            return False

        def read(self):
            return "{}"
    ns["open"] = lambda *a, **k: FakeFile()

    class FakeOrjson:
        @staticmethod
        def loads(text):
            return doc
    ns["orjson"] = FakeOrjson

    def run():
        return ns["parse_dssr_output"]("/fake/dssr.json", s3, None if mode != "stacks2" else 2)
    paths = eng.explore(run)
    res["paths"] = len(paths)

    def beq(b, t):
        if len(t) > b.cap:
            return z3.BoolVal(False)
        return z3.And(b.lnz() == len(t), *[b.chars[k] == ord(c) for k, c in enumerate(t)])
    for path, out in paths:
        if isinstance(out, Exception):
            v, m, _ = eng.prove(path, z3.BoolVal(True))
            w = None
            if m is not None:
                w = {"mode": mode, "LW": B.conc(lw, m)} if mode == "lw" else {"mode": mode}
            res["verdicts"].append({"ob": f"parse_dssr_output raised {type(out).__name__}: {out}", "v": v, "key": "parse_dssr_output:exception", "w": w})
            continue
        res["reach"] += 1
        def fn(r):
            return None if r is None else r.full_name
        pairs = [(fn(p.nt1), fn(p.nt2), getattr(p.lw, "name", None)) for p in out.basePairs]
        stacks = [(fn(s.nt1), fn(s.nt2)) for s in out.stackings]
        if any(None in t for t in pairs + stacks):
            # an interaction whose residue (or class) did not resolve was kept
            v, m, _ = eng.prove(path, z3.BoolVal(True))
            w = None
            if m is not None:
                w = {"mode": mode, "LW": B.conc(lw, m)} if mode == "lw" else ({"mode": mode, "pre": B.conc(pre, m), "nt1": B.conc(nt1, m), "nt2": B.conc(nt2, m)}
                                                                               if mode == "names" else {"mode": mode, "mid": B.conc(mid, m)})
            res["verdicts"].append({"ob": f"an interaction with an unresolved residue or class was kept: pairs {pairs}, stackings {stacks}", "v": v,
                                    "key": "parse_dssr_output:" + {"lw": "lw", "names": "names"}.get(mode, "stacks"), "w": w})
            continue
        if mode == "lw":
            valid = z3.Or([beq(lw, n) for n in LWNAMES])
            if pairs:
                neg = z3.Or(z3.Not(valid), z3.Not(beq(lw, pairs[0][2])))
                if len(pairs) != 1 or pairs[0][:2] != (names[0], names[1]):
                    neg = z3.BoolVal(True)
            else:
                neg = valid
            v, m, _ = eng.prove(path, neg)
            res["verdicts"].append({"ob": f"pairs kept {pairs}: a pair is kept exactly when its LW is one of the 18 class names", "v": v,
                                    "key": "parse_dssr_output:lw", "w": {"mode": mode, "LW": B.conc(lw, m)} if m is not None else None})
        elif mode == "names":
            # first pair kept iff (nt1 after the last ':') resolves and nt2 resolves; fixed pairs: only the last one is kept
            r1 = z3.Or([beq(nt1, n) for n in names])
            r2 = z3.Or([beq(nt2, n) for n in names])
            tail = (names[2], names[0], "tWH")
            if not pairs or pairs[-1] != tail or len(pairs) > 2:
                neg = z3.BoolVal(True)
            elif len(pairs) == 2:
                a, b, c = pairs[0]
                neg = z3.Or(z3.Not(beq(nt1, a)), z3.Not(beq(nt2, b)), c != "cWW")
            else:
                neg = z3.And(r1, r2)
            v, m, _ = eng.prove(path, neg)
            res["verdicts"].append({"ob": f"pairs kept {pairs}: exactly those with a valid class and two resolving names", "v": v,
                                    "key": "parse_dssr_output:names",
                                    "w": {"mode": mode, "pre": B.conc(pre, m), "nt1": B.conc(nt1, m), "nt2": B.conc(nt2, m)} if m is not None else None})
        else:
            rm = z3.Or([beq(mid, n) for n in names])
            base = [(names[1], names[2])]
            if len(stacks) == 3:
                a = stacks[0][1]
                neg = z3.Not(beq(mid, a)) if (stacks[0][0] == names[0] and stacks[1] == (a, names[1]) and stacks[2] == base[0]) else z3.BoolVal(True)
            elif stacks == base:
                neg = rm
            else:
                neg = z3.BoolVal(True)
            if pairs:
                neg = z3.BoolVal(True)        # model None -> first model only, which has no pairs
            v, m, _ = eng.prove(path, neg)
            res["verdicts"].append({"ob": f"stackings {stacks}: exactly the consecutive members that resolve (first model)", "v": v,
                                    "key": "parse_dssr_output:stacks", "w": {"mode": mode, "mid": B.conc(mid, m)} if m is not None else None})
    res.update(queries=eng.nq, solver_s=round(eng.tq, 2), unknown=eng.unknown, wall_s=round(time.time() - t0, 2))
    return res


REPLAY_DSSR = '''
import json, tempfile, os
from rnapolis.adapter import parse_dssr_output
from rnapolis.common import LeontisWesthof, ResidueAuth
from rnapolis.tertiary import Residue3D, Structure3D, Atom
w = {w!r}
def mkres(chain, num, name, icode=None):
    auth = ResidueAuth(chain, num, icode, name)
    return Residue3D(None, auth, 1, name, (Atom(None, None, auth, 1, "P", 0.0, 0.0, float(num), 1.0),))
residues = [mkres("A", 1, "G"), mkres("A", 2, "C"), mkres("B", 10, "U", "A")]; s3 = Structure3D(residues)
names = [r.full_name for r in residues]
if w["mode"] == "lw":
    doc = {{"pairs": [{{"nt1": "1:" + names[0], "nt2": names[1], "LW": w["LW"]}}]}}
elif w["mode"] == "names":
    doc = {{"pairs": [{{"nt1": w["pre"] + ":" + w["nt1"], "nt2": w["nt2"], "LW": "cWW"}}, {{"nt1": names[0], "LW": "tHS"}},
           {{"nt1": names[2], "nt2": names[0], "LW": None}}, {{"nt1": names[2], "nt2": names[0], "LW": "tWH"}}]}}
else:
    inner = {{"stacks": [{{"nts_long": names[0] + "," + w["mid"] + "," + names[1] + "," + names[2]}}, {{"nts_long": names[1]}}, {{}}], "pairs": []}}
    doc = {{"models": [{{"model": 1, "parameters": inner}}, {{"model": 2, "parameters": {{"pairs": [{{"nt1": names[0], "nt2": names[1], "LW": "cWW"}}]}}}}]}}
d = tempfile.mkdtemp(); p = os.path.join(d, "dssr.json"); open(p, "w").write(json.dumps(doc))
try:
    out = parse_dssr_output(p, s3)
except Exception as e:
    print("raised", type(e).__name__, repr(e)); sys.exit(1)
fn = lambda r: None if r is None else r.full_name
pairs = [(fn(x.nt1), fn(x.nt2), getattr(x.lw, "name", None)) for x in out.basePairs]; stacks = [(fn(s.nt1), fn(s.nt2)) for s in out.stackings]
if any(None in t for t in pairs + stacks): print("kept an interaction with an unresolved residue or class:", pairs, stacks); sys.exit(1)
print(doc, "->", pairs, stacks)
LW = [x.name for x in LeontisWesthof]
if w["mode"] == "lw":
    want = [(names[0], names[1], w["LW"])] if w["LW"] in LW else []
    sys.exit(1 if pairs != want else 0)
if w["mode"] == "names":
    n1 = w["nt1"]
    want = ([(n1, w["nt2"], "cWW")] if (n1 in names and w["nt2"] in names) else []) + [(names[2], names[0], "tWH")]
    sys.exit(1 if pairs != want else 0)
want = ([(names[0], w["mid"]), (w["mid"], names[1])] if w["mid"] in names else []) + [(names[1], names[2])]
sys.exit(1 if (stacks != want or pairs) else 0)
'''


def _dispatch(spec):
    kind, sp = spec
    return {"labels": job_labels, "lines": job_lines, "file": job_file, "dssr": job_dssr}[kind](sp)


def run(rep, tier):
    from vlib.core import Violation, ncpu, VERIF
    cap = 7 if tier == "quick" else 8
    specs = [("labels", cap)]
    line_specs = [(5, 5, 3, "int", "int"), (8, 8, 4, "int", "int"), (9, 7, 3, "int", "int"), (8, 5, 5, "int", "int"),
                  (5, 5, 2, "int", "int"), (4, 5, 3, "int", "int"), (5, 5, 3, "txt", "int"), (8, 8, 3, "int", "txt")]
    if tier != "quick":
        line_specs += [(6, 9, 3, "int", "int"), (7, 8, 4, "int", "int"), (5, 3, 3, "int", "int"), (9, 9, 5, "int", "int"), (8, 8, 2, "txt", "txt")]
    specs += [("lines", s) for s in line_specs]
    specs += [("file", 0), ("dssr", "lw"), ("dssr", "names"), ("dssr", "stacks")]
    from vlib.par import pmap, Crashed
    results = pmap(_dispatch, specs)
    for k, r in enumerate(results):
        if isinstance(r, Crashed):
            rep.harness_error(f"job {r.item} crashed: {r.why}")
            results[k] = {"name": str(r.item), "paths": 0, "queries": 0, "solver_s": 0.0, "verdicts": [], "unknown": 0, "wall_s": 0, "reach_listed": 1, "reach": 1, "reached": 1, "missing_classes": []}
    for (kind, sp), r in zip(specs, results):
        rep.add(states=r["paths"], transitions=r["queries"], solver_s=r["solver_s"])
        rep.cov.setdefault("groups", []).append({k: r.get(k) for k in ("name", "paths", "queries", "unknown", "wall_s")})
        if kind == "labels":
            if r["missing_classes"]:
                rep.harness_error(f"labels: classes never produced (vacuity): {r['missing_classes'][:5]}")
            else:
                rep.add(reachability_witnesses=1)
        elif r.get("reach") or not r.get("wellformed", True):
            rep.add(reachability_witnesses=1)
        else:
            rep.harness_error(f"{r['name']}: the well-formed case is never reached")
        for v in r["verdicts"]:
            rep.add(obligations=1)
            if v["v"] == "unsat":
                rep.add(discharged=1)
            elif v["v"] == "sat":
                rep.add(discharged=1)
                w = v.get("w")
                if w is None:
                    rep.harness_error(f"{r['name']}: {v['ob']} (no witness)")
                elif kind == "labels":
                    rep.violation(Violation(v["key"], f"{v['ob']}: label {w!r}", REPLAY_LABEL.format(verif=VERIF, lab=w), witness=w))
                elif kind == "lines":
                    rep.violation(Violation(v["key"], f"{v['ob']}: {w}", REPLAY_LINE.format(verif=VERIF, w=w), witness=w))
                elif kind == "file":
                    rep.violation(Violation(v["key"], f"{v['ob']}: line {w!r}", REPLAY_FILE.format(fixed=r["fixed"], sym=w), witness=w))
                else:
                    rep.violation(Violation(v["key"] + (":" + w["mode"] if v["key"].endswith("exception") else ""), f"{v['ob']}: {w}",
                                            REPLAY_DSSR.format(w=w), witness=w))
            else:
                rep.add(undecided=1)
        rep.sample({"group": r["name"], "paths": r["paths"], "verdicts": [(v["ob"][:70], v["v"]) for v in r["verdicts"][:2]]}, cap=8)
    rep.add(functions_encoded=["adapter.unify_classification", "adapter.parse_unit_id", "adapter._process_interaction_line",
                               "adapter.parse_fr3d_output", "adapter.match_dssr_name_to_residue", "adapter.match_dssr_lw", "adapter.parse_dssr_output"],
            bounds={"labels": f"every printable-ASCII string of length <= {cap}", "unit ids": "4..9 fields; pdb<=4, model<=2, chain<=3, name<=3 chars, "
                    "number -999..9999 or a digit-free field <=3 chars, insertion code <=1 char; 2..5 tab separated parts; label from a list of 14",
                    "listing": "8 fixed lines + 1 symbolic line (leading blanks, optional '#'), parsed twice in one process",
                    "DSSR": "LW any printable string <= 18 chars; nt names <= 7 chars over the structure's alphabet with optional 'model:' prefix; "
                            "one symbolic stack member; multi-model document",
                    "outside": "longer fields, non-ASCII text, whitespace/'+'/'_' inside number fields, the JSON tokenizer (orjson stubbed)"},
            engines=["E2 symx bounded strings (char arrays over z3 Ints) + AST instrumentation of the real functions"],
            rule="states = explored paths; transitions = solver queries; per path obligations against a finite reference table",
            stubs=["open (fake file yielding the lines)", "orjson.loads (returns the symbolic document)"])
    rep.assume("FR3D number fields contain no whitespace, '+' or '_' (int() would accept those); field text is printable ASCII without '|' and tab")
