"""C12 — secondary-structure objects are pure (inductive step over one operation, E1 + families).

Histories are not enumerated.  Invariant Inv(obj, E): entries deep-equal E, `pairs` equals the pairs
of E, and every answer the object gives equals the answer of a fresh object on E.  Step: for every
pairing E in the bound and every public operation, from a fresh object run the operation, check its
answer against an independent oracle, check Inv afterwards (all nine queries re-asked and compared
with fresh objects), and -- for operations that return a structure -- run every operation on the
returned object and check Inv of the receiver again (aliasing between receiver and result).
Because Inv says that a warm object answers like a cold one, the step covers histories of any length.
"""
from harness.pairing_lib import *

PID = "C12"
OPS = ["str", "pairs", "sequence", "dot_bracket", "fcfs", "all_dot_brackets", "elements",
       "without_pseudoknots", "without_isolated"]


def _entries(b):
    return [(e.index_, e.sequence, e.pair) for e in b.entries]


def _flat(el):
    from harness.c07 import flatten
    return flatten(el)


def answer(op, b):
    """canonical, comparable form of the answer of one public operation"""
    if op == "str":
        return str(b)
    if op == "pairs":
        return sorted(b.pairs.items())
    if op == "sequence":
        return b.sequence
    if op == "dot_bracket":
        return (b.dot_bracket.sequence, b.dot_bracket.structure)
    if op == "fcfs":
        return (b.fcfs.sequence, b.fcfs.structure)
    if op == "all_dot_brackets":
        return sorted(d.structure for d in b.all_dot_brackets)
    if op == "elements":
        return _flat(b.elements)
    if op == "without_pseudoknots":
        return _entries(b.without_pseudoknots())
    if op == "without_isolated":
        return _entries(b.without_isolated())
    raise ValueError(op)


def oracle(op, pc, seq, optimal_structure):
    n = len(pc)
    if op == "without_pseudoknots":
        d = decode(optimal_structure)
        keep = {pr for pr, lv in d.items() if lv == 0}
    elif op == "without_isolated":
        keep = {pr for st in stems_of(pairs_of(pc)) if len(st) >= 2 for pr in st}
    else:
        return None
    q = [0] * n
    for i, j in keep:
        q[i - 1] = j
        q[j - 1] = i
    return [(i + 1, seq[i], q[i]) for i in range(n)]


def _fast_solver():
    """the MILP back-end is not the subject of C12: replace HiGHS/CBC by the in-process z3 solver stub (no subprocess)"""
    import pulp
    from vlib import e3
    if getattr(pulp, "_verif_fast", False):
        return

    class NoHiGHS:
        def __init__(self, *a, **k):
            pass

        def available(self):
            return False
    pulp.HiGHS_CMD = NoHiGHS
    pulp.LpSolverDefault = e3.CaptureSolver()
    pulp._verif_fast = True


def body(p, opi, ident=None):
    from harness.e1_common import realize, deep_realize, NoTracing, log, known_keys
    from rnapolis.common import BpSeq, Entry
    with NoTracing():
        _fast_solver()
    n = realize(len(p))
    op = OPS[realize(opi)]
    seq = "".join(LETTERS[i % 26] for i in range(n))
    problems = []
    pc = [realize(x) for x in p]

    def fresh_native():
        return BpSeq([Entry(i + 1, seq[i], pc[i]) for i in range(n)])
    with NoTracing():
        ndb = fresh_native().dot_bracket
        want_entries = [(i + 1, seq[i], pc[i]) for i in range(n)]
        want_pairs = sorted({**{i: j for i, j in pairs_of(pc)}, **{j: i for i, j in pairs_of(pc)}}.items())
    got = ret_entries = None
    try:
        b = BpSeq([Entry(i + 1, seq[i], p[i]) for i in range(n)])
        b.__dict__["dot_bracket"] = ndb     # pulp model building cannot be traced (see DESIGN E1)
        got = answer(op, b)
        after = (_entries(b), sorted(b.pairs.items()), str(b))
    except Exception as e:  # noqa: BLE001
        problems.append((f"{op}: exception {type(e).__name__}: {e}", f"{op}:exception"))
    got = deep_realize(got)
    with NoTracing():
        if not problems:
            after = deep_realize(after)
            # 1. the answer itself
            if op in ("without_pseudoknots", "without_isolated"):
                want = oracle(op, pc, seq, ndb.structure)
                if got != want:
                    problems.append((f"{op} returns {[x[2] for x in got]} instead of {[x[2] for x in want]}", f"{op}:answer"))
            # 2. receiver unchanged
            if after[0] != want_entries or after[1] != want_pairs or after[2] != "\n".join(f"{a} {c} {d}" for a, c, d in want_entries):
                problems.append((f"{op} changes the receiver: entries {[x[2] for x in after[0]]}, expected {pc}", f"{op}:mutates-receiver"))
            # 3. every later answer equals a fresh object's answer: for every second operation, on a warm object that
            #    has only seen `op` (so no other cache slot is filled), compared with the answer of a cold object
            try:
                nb = fresh_native()
                r1 = answer(op, nb)
                if r1 != got:
                    problems.append((f"{op}: symbolic and native answers differ", "dual"))
                import os as _os
                for op2 in (OPS if not _os.environ.get("VERIF_SIDELOG") else []):   # pair sweep: native mode only
                    nb2 = fresh_native()
                    answer(op, nb2)
                    a2 = answer(op2, nb2)
                    f2 = answer(op2, fresh_native())
                    if a2 != f2:
                        problems.append((f"after {op}, {op2} answers {a2!r} but a fresh copy answers {f2!r}", f"{op2}:after-{op}"))
                        break
                # 3b. answers depend only on the object: another object with the same pairs but other letters and one more (unpaired)
                #     residue is queried in between
                if op == "dot_bracket":
                    seq2 = "".join(LETTERS[(i + 7) % 26].swapcase() for i in range(n)) + "N"
                    sib = BpSeq([Entry(i + 1, seq2[i], pc[i]) for i in range(n)] + [Entry(n + 1, "N", 0)])
                    sa = answer("dot_bracket", sib)
                    if sa[0] != seq2 or len(sa[1]) != n + 1:
                        problems.append((f"dot_bracket of an object with sequence {seq2} answers {sa!r}", "dot_bracket:other-object"))
                    na = answer("dot_bracket", fresh_native())
                    if na[0] != seq or len(na[1]) != n:
                        problems.append((f"dot_bracket of an object with sequence {seq} answers {na!r} after another object was queried", "dot_bracket:other-object"))
                # 4. operations on a returned structure must not reach back into the receiver
                if op in ("without_pseudoknots", "without_isolated"):
                    nb = fresh_native()
                    r = nb.without_pseudoknots() if op == "without_pseudoknots" else nb.without_isolated()
                    if r is not nb:
                        # the returned structure answers like a fresh object built from its own entries
                        rf = BpSeq([Entry(a_, b_, c_) for a_, b_, c_ in _entries(r)])
                        for op2 in OPS:
                            if answer(op2, r) != answer(op2, rf):
                                problems.append((f"the result of {op} answers {op2} as {answer(op2, r)!r}, a fresh object with the same entries as "
                                                 f"{answer(op2, rf)!r}", f"{op}:result-{op2}"))
                                break
                        if _entries(nb) != want_entries or sorted(nb.pairs.items()) != want_pairs:
                            problems.append((f"operations on the result of {op} change the receiver", f"{op}:aliasing"))
                        for op2 in OPS:
                            if answer(op2, nb) != answer(op2, fresh_native()):
                                problems.append((f"after operations on the result of {op}, {op2} of the receiver differs from a fresh copy",
                                                 f"{op}:aliasing"))
                                break
            except Exception as e:  # noqa: BLE001
                problems.append((f"{op}: exception {type(e).__name__}: {e}", f"{op}:exception"))
        keys = sorted({f"BpSeq.{k}" for _, k in problems if k != "dual"})
        mism = any(k == "dual" for _, k in problems)
        ok = all(k in known_keys(PID) for k in keys)
        rec = {"p": [pc, OPS.index(op)], "problems": [m for m, _ in problems][:4], "keys": keys, "kind": "step",
               "dual_mismatch": bool(mism) and not keys}
        log(rec)
    return ok and not mism


def body_native(p):
    """all nine operations for one pairing (native families)"""
    ok = True
    for k in range(len(OPS)):
        ok = body(list(p), k) and ok
    return ok


def body_inflated(p, lens):
    from harness.c02 import inflate
    return body_native(inflate(list(p), list(lens)))


def body_concat(a, b):
    return body_native(concat(list(a), list(b)))


def body_ladder(k):
    """k mutually crossing pairs (needs k bracket levels): all nine operations"""
    pc = [k + i + 1 for i in range(k)] + [i + 1 for i in range(k)]
    return body_native(pc)


def body_hist(p, h):
    """explicit call histories (thorough): the sequence of operation indices h on one object, each answer
    compared with a fresh copy's answer -- exercises the inductive argument on concrete interleavings"""
    from harness.e1_common import log, known_keys
    from rnapolis.common import BpSeq, Entry
    _fast_solver()
    pc = list(p)
    n = len(pc)
    seq = "".join(LETTERS[i % 26] for i in range(n))

    def fresh():
        return BpSeq([Entry(i + 1, seq[i], pc[i]) for i in range(n)])
    problems = []
    b = fresh()
    for step, k in enumerate(h):
        try:
            a = answer(OPS[k], b)
            f = answer(OPS[k], fresh())
        except Exception as e:  # noqa: BLE001
            problems.append((f"history {[OPS[x] for x in h]} step {step}: {type(e).__name__}: {e}", "history:exception"))
            break
        if _entries(b) != [(i + 1, seq[i], pc[i]) for i in range(n)]:
            problems.append((f"history {[OPS[x] for x in h[:step + 1]]}: {OPS[k]} changes the receiver to {[x[2] for x in _entries(b)]}",
                             f"{OPS[k]}:mutates-receiver"))
            break
        if a != f:
            problems.append((f"history {[OPS[x] for x in h[:step + 1]]}: {OPS[k]} answers {a!r}, a fresh copy answers {f!r}",
                             f"{OPS[k]}:later-answer"))
            break
    keys = sorted({f"BpSeq.{k}" for _, k in problems})
    ok = all(k in known_keys(PID) for k in keys)
    log({"p": [pc, list(h)], "problems": [m for m, _ in problems][:3], "keys": keys, "kind": "history"})
    return ok


def replay(rec):
    import harness.e1_common as ec
    saved = ec.known_keys
    ec.known_keys = lambda pid: set()
    try:
        if rec["kind"] == "history":
            return body_hist(rec["p"][0], rec["p"][1])
        return body(rec["p"][0], rec["p"][1])
    finally:
        ec.known_keys = saved


def run(rep, tier):
    import z3
    from vlib import e1, allsat
    from vlib.e1 import Partition
    from harness import pairing_driver as pd
    N1 = 5 if tier == "quick" else 7          # CrossHair-traced step
    N2 = 8 if tier == "quick" else 10         # native step (AllSAT)
    T = 900 if tier == "quick" else 3000
    parts = []
    for n in range(1, N1 + 1):
        cnt = len(list(all_pairings(n)))
        for k in range(len(OPS)):
            if n <= 4 and k > 0:
                continue
            pres = [f"len(p) == {n}", "valid(p)"] + ([f"opi == {k}"] if n > 4 else [f"0 <= opi < {len(OPS)}"])
            parts.append(Partition(f"step_n{n}_{OPS[k] if n > 4 else 'all'}", pres, sig="p: List[int], opi: int", call="p, opi",
                                   expected=cnt * (1 if n > 4 else len(OPS))))
    parts.sort(key=lambda x: -(x.expected or 0))
    e1.run("harness.c12", parts, per_condition_timeout=T)
    for n in range(1, N2 + 1):
        models, nq, dt = allsat.pairings(n)
        rep.add(transitions=nq, solver_s=dt)
        exp = len(list(all_pairings(n)))
        if len(models) != exp:
            rep.harness_error(f"n={n}: AllSAT {len(models)} != {exp}")
        pt = allsat.run_family(f"step_native_n{n}", "harness.c12", "body_native", [(m,) for m in models],
                               [f"every pairing on {n} positions", "all nine operations"], expected=exp * len(OPS), chunksize=8)
        parts.append(pt)
    pt = allsat.run_family("ladders", "harness.c12", "body_ladder", [(k,) for k in range(1, 8)],
                           ["k mutually crossing pairs, k = 1..7 (k bracket levels)", "all nine operations"], expected=None, chunksize=1)
    parts.append(pt)
    # stems of different lengths (region order matters for FCFS) and two independent knot groups
    inp, nq, dt = allsat.inflated_inputs(4, 2, 3)
    rep.add(transitions=nq, solver_s=dt)
    parts.append(allsat.run_family("inflated_4_2_3", "harness.c12", "body_inflated", inp, ["knotted 2-arc diagrams, stems of 1..3 pairs", "all nine operations + pairs"],
                                   expected=None, chunksize=2))
    if tier != "quick":
        inp, nq, dt = allsat.inflated_inputs(6, 3, 2)
        rep.add(transitions=nq, solver_s=dt)
        parts.append(allsat.run_family("inflated_6_3_2", "harness.c12", "body_inflated", inp, ["knotted 3-arc diagrams, stems of 1..2 pairs"], expected=None, chunksize=2))
    # explicit histories: structures with isolated pairs / knots, all op sequences of length L over the 5 state-relevant ops
    L = 3 if tier == "quick" else 4
    core = [OPS.index(x) for x in ("str", "dot_bracket", "elements", "without_pseudoknots", "without_isolated", "all_dot_brackets")]
    nh = 6 if tier == "quick" else 7
    P, cons = allsat.pairing_vars(nh)
    H = [z3.Int(f"h{i}") for i in range(L)]
    # independent parts (structure, call sequence): enumerated separately by AllSAT and combined
    mp, nq1, dt1 = allsat.allsat(P, cons + [allsat.narcs_formula(P, 3)])
    mh, nq2, dt2 = allsat.allsat(H, [z3.Or([x == c for c in core]) for x in H])
    rep.add(transitions=nq1 + nq2, solver_s=dt1 + dt2)
    pt = allsat.run_family(f"histories_n{nh}_len{L}", "harness.c12", "body_hist", [(a, b) for a in mp for b in mh],
                           [f"pairings on {nh} positions with 3 pairs", f"call sequences of length {L} over {[OPS[c] for c in core]}"],
                           expected=None, chunksize=64)
    parts.append(pt)
    e1.collect(rep, parts, "harness.c12")
    rep.add(functions_encoded=["BpSeq.__str__", "BpSeq.pairs", "BpSeq.sequence", "BpSeq.fcfs", "BpSeq.all_dot_brackets", "BpSeq.elements",
                               "BpSeq.without_pseudoknots", "BpSeq.without_isolated", "BpSeq.from_dotbracket", "DotBracket.without_pseudoknots",
                               "BpSeq.dot_bracket (natively; injected for the traced step)"],
            bounds={"traced step N<=": N1, "native step N<=": N2, "operations": OPS, "explicit histories": f"length {L}, N={nh}, 3 pairs",
                    "outside": "larger structures; histories are covered by the inductive argument, explicit ones only up to the stated length"},
            engines=["E1 CrossHair (one-operation step)", "z3 AllSAT (native step for larger N, explicit histories)"], exhaustive=True,
            rule="states = distinct (pairing, operation) or (pairing, history) cases; transitions = executions; an obligation = a partition",
            stubs=["dot_bracket cache slot filled natively for the traced step"])
    rep.assume("pseudoknot removal is specified against the object's own (optimal) dot-bracket, as the statement says",
               "sharing Entry objects between receiver and result is not itself a violation; only an observable change of the receiver is")
