"""C07 — structural elements decompose the secondary structure consistently (E1).

The real `BpSeq.elements` (with `Strand/Stem.from_bpseq_entries`) is executed by CrossHair for
every pairing in the bound; an independent oracle re-derives what the statement demands.
"""
from harness.pairing_lib import *

PID = "C07"


def oracle_problems(pc, seq, db, el):
    """el = (stems, single_strands, hairpins, loops) as plain tuples; returns [(msg, class)]"""
    n = len(pc)
    stems, ss, hp, loops = el
    errs = []
    pairs = pairs_of(pc)

    def text(kind, first, last, sq, st):
        lo, hi = min(first, last), max(first, last)
        if sq != seq[lo - 1:hi] or st != db[lo - 1:hi]:
            errs.append((f"{kind} strand {first}-{last} text {sq!r}/{st!r} != slices {seq[lo - 1:hi]!r}/{db[lo - 1:hi]!r}", "text"))
    covered = set()
    for (a5, b5, s5, t5, a3, b3, s3, t3) in stems:
        L = b5 - a5 + 1
        if L < 1 or b3 - a3 + 1 != L:
            errs.append((f"stem {a5}-{b5}/{a3}-{b3}: strands are not mirrored", "stem"))
            continue
        for k in range(L):
            pr = (a5 + k, b3 - k)
            if pr not in pairs:
                errs.append((f"stem {a5}-{b5}/{a3}-{b3}: {pr} is not a base pair", "stem"))
            if pr in covered:
                errs.append((f"pair {pr} in two stems", "stem"))
            covered.add(pr)
        if (a5 - 1, b3 + 1) in pairs or (b5 + 1 < a3 - 1 and (b5 + 1, a3 - 1) in pairs):
            errs.append((f"stem {a5}-{b5}/{a3}-{b3} is not a maximal run", "stem"))
        text("stem 5'", a5, b5, s5, t5)
        text("stem 3'", a3, b3, s3, t3)
    if covered != pairs:
        errs.append((f"stems cover {sorted(covered)} instead of {sorted(pairs)}", "stem"))
    want_stems = [(st[0][0], st[-1][0], st[-1][1], st[0][1]) for st in stems_of(pairs)]
    if sorted((a5, b5, a3, b3) for (a5, b5, _, _, a3, b3, _, _) in stems) != sorted(want_stems):
        errs.append((f"stems {[(x[0], x[1], x[4], x[5]) for x in stems]} != maximal runs {want_stems}", "stem"))
    exp_h = {(i, j) for (i, j) in pairs if all(pc[k - 1] == 0 for k in range(i + 1, j))}
    got_h = [(h[0], h[1]) for h in hp]
    if set(got_h) != exp_h or len(got_h) != len(set(got_h)):
        errs.append((f"hairpins {sorted(got_h)} != pairs enclosing only unpaired nucleotides {sorted(exp_h)}", "hairpin"))
    interior = {}

    def add(kind, lo, hi):
        for k in range(lo, hi + 1):
            if 1 <= k <= n and pc[k - 1] != 0:
                errs.append((f"{kind}: interior position {k} is paired", "interior"))
            interior.setdefault(k, []).append(kind)
    for lp in loops:
        m = len(lp)
        if m < 2:
            errs.append((f"loop with {m} strand(s)", "loop"))
        for a in range(m):
            s, t = lp[a], lp[(a + 1) % m]
            if not (1 <= s[1] <= n) or pc[s[1] - 1] != t[0]:
                errs.append((f"loop {[(x[0], x[1]) for x in lp]}: end {s[1]} of one strand is not paired with start {t[0]} of the next", "loop"))
            add("loop", s[0] + 1, s[1] - 1)
            text("loop", s[0], s[1], s[2], s[3])
    for h in hp:
        add("hairpin", h[0] + 1, h[1] - 1)
        text("hairpin", h[0], h[1], h[2], h[3])
    for (first, last, sq, st, is5, is3) in ss:
        text("single", first, last, sq, st)
        if is5:
            add("single5p", first, last - 1)
        elif is3:
            add("single3p", first + 1, last)
        else:
            add("single", first + 1, last - 1)
    for k in range(1, n + 1):
        if pc[k - 1] == 0:
            c = interior.get(k, [])
            if len(c) != 1:
                cls = "coverage:pair-free" if not pairs else "coverage"
                errs.append((f"unpaired nucleotide {k} lies in {len(c)} element interiors {c}", cls))
    return errs


def flatten(el):
    stems, ss, hp, loops = el

    def st(s):
        return (s.first, s.last, s.sequence, s.structure)
    return ([st(x.strand5p) + st(x.strand3p) for x in stems],
            [st(x.strand) + (x.is5p, x.is3p) for x in ss],
            [st(x.strand) for x in hp],
            [[st(y) for y in x.strands] for x in loops])


def body(p, ident=None):
    from harness.e1_common import realize, deep_realize, NoTracing, log, known_keys
    from rnapolis.common import BpSeq, Entry
    n = realize(len(p))
    seq = "".join(LETTERS[i % 26] for i in range(n))
    problems = []
    pc = [realize(x) for x in p]
    with NoTracing():
        # the MILP model cannot be built under CrossHair tracing (LpVariable.__eq__): the object's own optimal
        # notation is computed natively on the witness and injected into the cached slot
        nb = BpSeq([Entry(i + 1, seq[i], pc[i]) for i in range(n)])
        ndb = nb.dot_bracket
        try:
            nat = flatten(nb.elements)
        except Exception as e:  # noqa: BLE001
            nat = f"exception {type(e).__name__}: {e}"
    el = None
    try:
        b = BpSeq([Entry(i + 1, seq[i], p[i]) for i in range(n)])
        b.__dict__["dot_bracket"] = ndb
        el = flatten(b.elements)
        descr = [str(x) == x.description for grp in b.elements for x in grp]
    except Exception as e:  # noqa: BLE001
        problems.append((f"exception {type(e).__name__}: {e}", "exception"))
    el = deep_realize(el)
    with NoTracing():
        mism = False
        if el is not None:
            mism = (nat != el)
            problems += oracle_problems(pc, seq, ndb.structure, el)
            if not all(deep_realize(descr)):
                problems.append(("element description differs from its text", "text"))
        keys = sorted({f"BpSeq.elements:{k}" for _, k in problems})
        ok = all(k in known_keys(PID) for k in keys)
        rec = {"p": pc, "problems": [m for m, _ in problems][:4], "keys": keys, "kind": "pairing", "dual_mismatch": bool(mism)}
        if ident is not None:
            rec["id"] = ident
        log(rec)
    return ok and not mism


def body_family(kind, k, p):
    from harness.e1_common import NoTracing
    big = padded(k, list(p)) if kind == 0 else interleaved(k, list(p))
    with NoTracing():
        return body(big, [kind, k, list(p)])


def body_inflated(p, lens):
    from harness.c02 import inflate
    return body(inflate(list(p), list(lens)), [list(p), list(lens)])


def body_star(k):
    return body(star(k), ["star", k])


def body_concat(a, b):
    return body(concat(list(a), list(b)), ["concat", list(a), list(b)])


def replay(rec):
    import harness.e1_common as ec
    saved = ec.known_keys
    ec.known_keys = lambda pid: set()
    try:
        return body(rec["p"])
    finally:
        ec.known_keys = saved


def run(rep, tier):
    from vlib import e1
    from harness import pairing_driver as pd
    Nmax = 8 if tier == "quick" else 10
    T = 900 if tier == "quick" else 3000
    parts = pd.base_partitions(1, Nmax)
    parts.sort(key=lambda x: -(x.expected or 0))
    e1.run("harness.c07", parts, per_condition_timeout=T)
    spec = [("inflated", 4, 2, 3), ("inflated", 6, 3, 2), ("padded", 4, 3), ("interleaved", 5), ("interleaved", 6)]
    if tier != "quick":
        spec += [("inflated", 8, 4, 2), ("inflated", 7, 3, 3), ("padded", 6, 6)]
    parts += pd.run_families(rep, "harness.c07", spec)
    e1.collect(rep, parts, "harness.c07")
    rep.add(functions_encoded=["BpSeq.elements", "BpSeq.__stems_entries", "Stem.from_bpseq_entries", "Strand.from_bpseq_entries",
                               "SingleStrand/Hairpin/Loop/Stem.__str__", "BpSeq.dot_bracket (natively, injected into the cache slot)"],
            bounds={"pairings N<=": Nmax, "families": [list(x) for x in spec], "outside": "larger structures"},
            engines=["E1 CrossHair", "z3 AllSAT (families)"], exhaustive=True,
            rule="states = distinct inputs (CrossHair path ends / AllSAT models); transitions = path executions; "
                 "obligations = partitions, discharged when CrossHair confirms over all paths and the path-class count matches",
            stubs=["dot_bracket cache slot filled with the natively computed optimal notation of the same structure"])
    rep.assume("an unpaired nucleotide 'lies in the interior' of a strand when it is strictly between the strand's ends "
               "(for 5'/3' tails the free end counts as interior)",
               "hairpins include pairs (i, i+1) with an empty interior (vacuously enclosing only unpaired nucleotides)")
