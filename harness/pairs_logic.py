"""Shared machinery for C03 (base pairs) and C11 (well-formed interaction lists): the discrete logic of the real
`annotator.find_pairs` explored on *abstracted geometry*.

Residues are synthetic (a handful of donor / acceptor atoms taken from the real tables, concrete pairwise distinct dummy
coordinates).  The geometric predicates the code evaluates are replaced by free symbolic values:
  * KD-tree stub: candidate atom pair (i, j) of different residues is within 4.0 A  <=>  free bool near[i,j]
    (pairs inside one residue are always returned, which exercises the same-residue skip);
  * angle_between_vectors(normal, vector) -> abstract angle whose "50 < a < 130" outcome is a free bool per (residue, contact);
  * torsion_angle(a, b, c, d) -> free real (degrees are taken by the shim), memoised per atom quadruple.
The explorer enumerates every combination; the obligations are the statements of C03 / C11 verbatim relative to these
oracle values.  Edge / donor / acceptor membership comes from a pinned transcript (spec/tables.json), so an edit of the
repository's tables is a mismatch.
"""
import itertools
import json
import os
import sys
import time

SPEC = os.path.join(os.path.dirname(os.path.dirname(os.path.abspath(__file__))), "spec", "tables.json")

PRIMES = [2, 3, 5, 7, 11, 13, 17, 19, 23, 29, 31, 37, 41, 43, 47, 53]

CONFIGS = {
    # name: list of (one-letter, chain, number, [atoms])
    "GC": [("G", "A", 1, ["N1", "N2", "O6", "C1'", "N9"]), ("C", "A", 2, ["N3", "O2", "N4", "C1'", "N1"])],
    "AU-rev": [("U", "B", 5, ["N3", "O4", "O2", "C1'", "N1"]), ("A", "A", 9, ["N1", "N6", "N7", "C1'", "N9"])],
    "GG-hoog": [("G", "A", 3, ["N1", "N2", "O6", "N7", "C1'", "N9"]), ("G", "A", 4, ["N1", "O6", "N7", "C1'", "N9"])],
    "AG-sugar": [("A", "A", 1, ["N3", "C2", "O2'", "C1'", "N9"]), ("G", "A", 7, ["N2", "N3", "O2'", "C1'", "N9"])],
    "GA-sugar3": [("G", "A", 2, ["N1", "N2", "N3", "C1'", "N9"]), ("A", "A", 4, ["N6", "N7", "N1", "C1'", "N9"])],
    "GU-mixed": [("G", "A", 1, ["C8", "N7", "C1'", "N9"]), ("U", "A", 2, ["OP1", "O2'", "C1'", "N1"])],
    "bph-G": [("G", "A", 1, ["N1", "N2", "C8", "N3", "C2"]), ("U", "A", 2, ["OP1", "O2'"])],
    "bph-C": [("C", "A", 5, ["N4", "C5", "C6", "N3", "C4"]), ("A", "A", 3, ["OP1", "OP2", "O5'"])],
    "bph-G3": [("G", "B", 2, ["N1", "N2", "C8", "N3", "C2"]), ("C", "A", 9, ["OP1", "OP2", "O5'"])],
    "bph-A": [("A", "B", 1, ["N6", "C2", "N1", "C6"]), ("G", "A", 1, ["OP2", "O2'"])],
    # the residue that owns the phosphate / ribose oxygens comes first in the file (and in residue order), the donor base second
    "br-first": [("U", "A", 2, ["OP1", "O2'"]), ("G", "A", 5, ["N1", "N2", "C8", "N3", "C2"])],
}


# candidate contacts that may be in range (all others are out of range by assumption): keeps 3-donor x 3-acceptor configurations small
ONLY = {"bph-C": {("N4", "OP1"), ("C5", "OP2"), ("C6", "O5'")}, "bph-G3": {("N1", "OP1"), ("N2", "OP2"), ("C8", "O5'")}}


def load_spec():
    with open(SPEC) as f:
        return json.load(f)


def dump_spec_from_repo():
    """used once to pin the transcript (committed under spec/)"""
    import rnapolis.tertiary as T
    return {"BASE_EDGES": T.BASE_EDGES, "BASE_DONORS": T.BASE_DONORS, "BASE_ACCEPTORS": T.BASE_ACCEPTORS,
            "PHOSPHATE_ACCEPTORS": T.PHOSPHATE_ACCEPTORS, "RIBOSE_ACCEPTORS": T.RIBOSE_ACCEPTORS}


ZIRBEL = {   # donor residue, donor atom -> class (or ('torsion', cis class, trans class, atoms defining the torsion))
    ("A", "C2"): 2, ("A", "N6"): ("torsion", 6, 7, ("N1", "C6")), ("A", "C8"): 0,
    ("G", "N1"): 5, ("G", "N2"): ("torsion", 1, 3, ("N3", "C2")), ("G", "C8"): 0,
    ("C", "N4"): ("torsion", 6, 7, ("N3", "C4")), ("C", "C5"): 9, ("C", "C6"): 0,
    ("U", "N3"): 5, ("U", "C5"): 9, ("U", "C6"): 0,
    ("T", "N3"): 5, ("T", "C6"): 0, ("T", "C7"): 9,
}


class RepeatMismatch(Exception):
    pass


class AbsAngle:
    """abstract angle: only the outcome of `lo < a < hi` is modelled (one free bool)"""

    def __init__(self, ok):
        self.ok = ok

    def __gt__(self, k):
        return self.ok

    def __lt__(self, k):
        return True

    def __format__(self, spec):
        return "<abstract angle>"


def explore(cfg_name, order="fwd", models=None, model_arg=None, repeat=False):
    """runs the real find_pairs over all abstract geometries of one configuration; returns (eng, paths, info)"""
    import z3
    from symx.engine import Engine, SBool
    from symx.shims import MathShim
    import rnapolis.annotator as A
    from rnapolis.tertiary import Atom, Residue3D, Structure3D
    from rnapolis.common import ResidueAuth
    import numpy
    eng = Engine(timeout_ms=10000)
    cfg = CONFIGS[cfg_name]
    residues = []
    atom_of_xyz = {}
    k = 0
    for ri, (letter, chain, num, names) in enumerate(cfg):
        auth = ResidueAuth(chain, num, None, letter)
        ats = []
        for an in names:
            p = PRIMES[k]
            xyz = (round(p * 1.01 + 20 * ri, 4), round(p * p * 0.013, 4), round(p * p * p * 0.0007, 4))
            k += 1
            at = Atom(None, None, auth, 1, an, xyz[0], xyz[1], xyz[2], 1.0)
            ats.append(at)
            atom_of_xyz[xyz] = (ri, an)
        r = Residue3D(None, auth, 1 if models is None else models[ri], letter, tuple(ats))
        r.__dict__["base_normal_vector"] = numpy.array([0.0, 0.0, 1.0])
        residues.append(r)
    near = {}
    angle_ok = {}
    torsions = {}
    all_atoms = [(ri, a) for ri, r in enumerate(residues) for a in r.atoms]
    vecmap = {}
    for (ri, a), (rj, b) in itertools.permutations(all_atoms, 2):
        v = tuple(numpy.round(a.coordinates - b.coordinates, 6))
        assert v not in vecmap, "dummy coordinates must give distinct difference vectors"
        vecmap[v] = ((ri, a.name), (rj, b.name))

    spec = load_spec()

    def kind_of(a):
        letter = cfg[a[0]][0]
        acc = spec["BASE_ACCEPTORS"].get(letter, []) + spec["RIBOSE_ACCEPTORS"] + spec["PHOSPHATE_ACCEPTORS"]
        return "acceptor" if a[1] in acc else ("donor" if a[1] in spec["BASE_DONORS"].get(letter, []) else "none")

    class KD:
        def __init__(self, pts):
            self.pts = [tuple(p) for p in pts]

        def query_pairs(self, r):
            out = []
            for i in range(len(self.pts)):
                for j in range(i + 1, len(self.pts)):
                    a, b = atom_of_xyz[self.pts[i]], atom_of_xyz[self.pts[j]]
                    if a[0] == b[0]:
                        out.append((i, j))
                        continue
                    if kind_of(a) == kind_of(b):
                        out.append((i, j))      # donor/donor and acceptor/acceptor candidates are skipped by the code at once: no fork needed
                        continue
                    if cfg_name in ONLY and (a[1], b[1]) not in ONLY[cfg_name] and (b[1], a[1]) not in ONLY[cfg_name]:
                        continue                # out of range by assumption of this configuration
                    key = tuple(sorted((a, b)))
                    v = near.setdefault(key, z3.Bool(f"near_{key[0][0]}{key[0][1]}_{key[1][0]}{key[1][1]}"))
                    if bool(SBool(eng, v)):
                        out.append((i, j))
            if order == "sym":
                # the real KD-tree returns a *set* of index pairs: any processing order is possible.  The cross-residue candidates in
                # range are permuted by a symbolic choice (all permutations while <= 3 of them, else forward / reversed)
                cross = [p for p in out if atom_of_xyz[self.pts[p[0]]][0] != atom_of_xyz[self.pts[p[1]]][0]
                         and kind_of(atom_of_xyz[self.pts[p[0]]]) != kind_of(atom_of_xyz[self.pts[p[1]]])]
                rest = [p for p in out if p not in cross]
                perms = list(itertools.permutations(range(len(cross)))) if len(cross) <= 3 else [tuple(range(len(cross))), tuple(reversed(range(len(cross))))]
                if len(perms) > 1:
                    c = eng.int(f"kdorder{len(cross)}", 0, len(perms) - 1)
                    cross = [cross[i] for i in perms[c.concretize()]]
                return rest + cross
            return out if order == "fwd" else list(reversed(out))
    cur = {}

    def fake_angle(v1, v2):
        # called as (normal of residue r, atom_i - atom_j): one free bool per (unordered contact, residue whose normal is used)
        r = next(k_ for k_, res in enumerate(residues) if res.__dict__["base_normal_vector"] is v1)
        a, b = vecmap[tuple(numpy.round(v2, 6))]
        key = (tuple(sorted((a, b))), r)
        v = angle_ok.setdefault(key, z3.Bool(f"angle_{key[0][0][0]}{key[0][0][1]}_{key[0][1][0]}{key[0][1][1]}_n{r}"))
        return AbsAngle(SBool(eng, v))

    def fake_torsion(a1, a2, a3, a4):
        key = tuple((x.auth.chain, x.auth.number, x.name) for x in (a1, a2, a3, a4))
        key = min(key, key[::-1])          # a dihedral does not change when the point order is reversed (C18)
        if key not in torsions:
            t = eng.real(f"torsion_{len(torsions)}")
            eng.assume(t.e > -180, t.e <= 180, t.e != 90, t.e != -90)
            torsions[key] = t
        return torsions[key]

    class Shim(MathShim):
        def degrees(self, a):
            return a
    saved = (A.KDTree, A.angle_between_vectors, A.torsion_angle, A.math)
    A.KDTree, A.angle_between_vectors, A.torsion_angle, A.math = KD, fake_angle, fake_torsion, Shim()

    def run():
        out = A.find_pairs(Structure3D(list(residues)), model_arg)
        if repeat:      # the same structure annotated again in the same process must give the same answer (no state kept between calls)
            out2 = A.find_pairs(Structure3D(list(residues)), model_arg)
            if [[repr(x) for x in part] for part in out2] != [[repr(x) for x in part] for part in out]:
                raise RepeatMismatch(out, out2)
        return out
    try:
        paths = eng.explore(run, maxpaths=60000)
    finally:
        A.KDTree, A.angle_between_vectors, A.torsion_angle, A.math = saved
    return eng, paths, {"residues": residues, "near": near, "angle_ok": angle_ok, "torsions": torsions, "cfg": cfg, "cfg_name": cfg_name}


# ------------------------------------------------------------------------------------------------- analysis
def contacts_of(info):
    """all cross-residue donor/acceptor candidate contacts of the configuration with their z3 predicates"""
    import z3
    spec = load_spec()
    cfg = info["cfg"]
    out = []
    atoms = [(ri, an) for ri, (_, _, _, names) in enumerate(cfg) for an in names]

    def kind(a):
        letter = cfg[a[0]][0]
        acc = spec["BASE_ACCEPTORS"].get(letter, []) + spec["RIBOSE_ACCEPTORS"] + spec["PHOSPHATE_ACCEPTORS"]
        return "acceptor" if a[1] in acc else ("donor" if a[1] in spec["BASE_DONORS"].get(letter, []) else None)
    for a, b in itertools.combinations(atoms, 2):
        if a[0] == b[0] or kind(a) is None or kind(b) is None or kind(a) == kind(b):
            continue
        key = tuple(sorted((a, b)))

        def var(d, k, name):
            if k not in d:
                d[k] = z3.Bool(name)
            return d[k]
        cfgname = info.get("cfg_name")
        if cfgname in ONLY and (a[1], b[1]) not in ONLY[cfgname] and (b[1], a[1]) not in ONLY[cfgname]:
            continue
        near = var(info["near"], key, f"near_{key[0][0]}{key[0][1]}_{key[1][0]}{key[1][1]}")
        oks = [var(info["angle_ok"], (key, r), f"angle_{key[0][0]}{key[0][1]}_{key[1][0]}{key[1][1]}_n{r}") for r in (key[0][0], key[1][0])]
        donor, acceptor = (a, b) if kind(a) == "donor" else (b, a)
        out.append({"key": key, "near": near, "accepted": z3.And(near, *oks), "donor": donor, "acceptor": acceptor,
                    "edges": {key[0][0]: spec["BASE_EDGES"].get(cfg[key[0][0]][0], {}).get(key[0][1]),
                              key[1][0]: spec["BASE_EDGES"].get(cfg[key[1][0]][0], {}).get(key[1][1])}})
    return out


def tables_match_spec():
    import rnapolis.tertiary as T
    spec = load_spec()
    cur = dump_spec_from_repo()
    return [k for k in spec if json.loads(json.dumps(cur[k])) != spec[k]]
