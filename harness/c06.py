"""C06 — 3D-to-2D mapping gives a valid matching and faithful text for any pair list (E2, concretising mode).

The input space (structure, gap detection, list of k base-pair entries (i, j, LW, Saenger) over residues + one absent
residue) is one z3 formula; AllSAT enumerates it completely (duplicates, reversed duplicates, multiplets, dangling
entries arise by themselves) and the real `Mapping2D3D` runs natively on each model; an independent oracle checks the
statement clause by clause.  The MILP back-end is replaced by the in-process exact z3 stub (its behaviour is C02/C13).
"""
import itertools
import os
import sys

from harness.pairing_lib import decode, OPEN, CLOSE

PID = "C06"
LWN = ["cWW", "tHS", "cWH"]
SAE = [None, "XIX", "XII"]
_CACHE = {}


def _fast_solver():
    import pulp
    from vlib import e3
    if getattr(pulp, "_verif_fast", False):
        return

    class NoHiGHS:
        def __init__(self, *a, **k):
            pass

        def available(self):
            return False
    pulp.HiGHS_CMD = NoHiGHS
    pulp.LpSolverDefault = e3.CaptureSolver()
    pulp._verif_fast = True


def structures():
    """three small structures cut from tests/1ehz-assembly-1.cif (real atom sets, so is_nucleotide holds)"""
    if _CACHE:
        return _CACHE
    import logging
    logging.disable(logging.CRITICAL)
    from rnapolis.parser import read_3d_structure
    from rnapolis.tertiary import Residue3D, Structure3D, Atom
    from rnapolis.common import ResidueAuth, ResidueLabel
    from vlib.core import REPO
    with open(os.path.join(REPO, "tests", "1ehz-assembly-1.cif")) as f:
        s3 = read_3d_structure(f)
    nts = [r for r in s3.residues if r.is_nucleotide][:6]

    def rename(r, chain, number):
        auth = ResidueAuth(chain, number, None, r.auth.name)
        label = ResidueLabel(chain, number, r.label.name)
        atoms = tuple(Atom(a.entity_id, label, auth, a.model, a.name, a.x, a.y, a.z, a.occupancy) for a in r.atoms)
        return Residue3D(label, auth, r.model, r.one_letter_name, atoms)
    _CACHE["contiguous"] = [nts[0], nts[1], nts[2], nts[3]]                       # G C G G, all connected
    _CACHE["gap"] = [nts[0], nts[1], nts[3], nts[4]]                               # numbering gap 2 -> 4 (one missing residue)
    _CACHE["two-chains"] = [nts[0], nts[1], rename(nts[4], "B", 7), rename(nts[5], "B", 8)]   # G C | A U
    _CACHE["chain-aba"] = [nts[0], rename(nts[4], "B", 7), nts[2], nts[3]]          # chain A, chain B, chain A again (a chain id in two blocks)
    return _CACHE


def absent_residue():
    from rnapolis.common import Residue, ResidueAuth
    return Residue(None, ResidueAuth("Z", 999, None, "G"))


def build_pairs(residues, entries):
    from rnapolis.common import BasePair, Residue, LeontisWesthof, Saenger
    pool = [Residue(r.label, r.auth) for r in residues] + [absent_residue()]
    out = []
    for a, b, l, s in entries:
        out.append(BasePair(pool[a], pool[b], LeontisWesthof[LWN[l]], None if SAE[s] is None else Saenger[SAE[s]]))
    return out


def oracle(sname, find_gaps, entries, m):
    """returns [(message, class)]"""
    from rnapolis.common import LeontisWesthof
    residues = structures()[sname]
    n = len(residues)
    problems = []
    # ---- expected numbering
    seq = []
    pos_of = {}
    strands = []
    for k, r in enumerate(residues):
        if k > 0 and residues[k - 1].chain != r.chain:
            strands.append([])
        if k == 0:
            strands.append([])
        if k > 0 and find_gaps and residues[k - 1].chain == r.chain and not residues[k - 1].is_connected(r):
            for _ in range(r.number - residues[k - 1].number - 1):
                seq.append("?")
                strands[-1].append("?")
        seq.append(r.one_letter_name)
        strands[-1].append(r.one_letter_name)
        pos_of[k] = len(seq)
    N = len(seq)
    b = m.bpseq
    ent = [(e.index_, e.sequence, e.pair) for e in b.entries]
    if [e[0] for e in ent] != list(range(1, N + 1)) or "".join(e[1] for e in ent) != "".join(seq):
        problems.append((f"BPSEQ numbering/sequence {[(e[0], e[1]) for e in ent]} != 1..{N} {''.join(seq)}", "numbering"))
        return problems
    pairs = set()
    for i, _, j in ent:
        if j:
            if not (1 <= j <= N) or ent[j - 1][2] != i or j == i:
                problems.append((f"BPSEQ not a symmetric matching: {[(e[0], e[2]) for e in ent]}", "matching"))
                return problems
            pairs.add((min(i, j), max(i, j)))
    # ---- canonical input pairs (unordered, both residues present)
    canon = set()
    distinct = set()
    for a, bb, l, s in entries:
        if a >= n or bb >= n:
            continue
        lw = LeontisWesthof[LWN[l]]
        if SAE[s] is not None:
            is_c = SAE[s] in ("XIX", "XX", "XXVIII")
        else:
            letters = "".join(sorted([residues[a].one_letter_name.upper(), residues[bb].one_letter_name.upper()]))
            is_c = LWN[l] == "cWW" and letters in ("AU", "AT", "CG", "GU")
        key = (min(pos_of[a], pos_of[bb]), max(pos_of[a], pos_of[bb]))
        if is_c:
            canon.add(key)
        # the class is oriented lower residue first (the library's convention; the statement leaves the orientation open), the positions are
        # those of the two brackets, left to right
        lo, hi = (a, bb) if residues[a] < residues[bb] else (bb, a)
        lw_o = lw if (lo, hi) == (a, bb) else lw.reverse
        distinct.add((min(pos_of[lo], pos_of[hi]), max(pos_of[lo], pos_of[hi]), lw_o.value))
    if not pairs <= canon:
        problems.append((f"BPSEQ pairs {sorted(pairs)} are not all canonical input pairs {sorted(canon)}", "invented-pair"))
    for p in canon:
        conflict = any(q != p and (set(q) & set(p)) for q in canon)
        if not conflict and p not in pairs:
            problems.append((f"canonical pair {p} conflicts with no other but is missing from the BPSEQ {sorted(pairs)}", "lost-pair"))
    # ---- per-strand dot-bracket text
    text = m.dot_bracket.split("\n")
    if len(text) != 3 * len(strands):
        problems.append((f"dot-bracket text has {len(text)} lines for {len(strands)} strands", "text"))
    else:
        cs = "".join(text[3 * k + 1] for k in range(len(strands)))
        ct = "".join(text[3 * k + 2] for k in range(len(strands)))
        d = decode(ct)
        if cs != "".join(seq) or [text[3 * k + 1] for k in range(len(strands))] != ["".join(s) for s in strands]:
            problems.append((f"per-strand sequences {[text[3 * k + 1] for k in range(len(strands))]} != {[''.join(s) for s in strands]}", "text"))
        elif d is None or set(d) != pairs or len(ct) != N:
            problems.append((f"per-strand dot-bracket {ct!r} does not decode to the BPSEQ matching {sorted(pairs)}", "text"))
        heads = [text[3 * k] for k in range(len(strands))]
        want_heads = []
        for k, r in enumerate(residues):
            if k == 0 or residues[k - 1].chain != r.chain:
                want_heads.append(f">strand_{r.chain}")
        if heads != want_heads:
            problems.append((f"strand headers {heads} != {want_heads}", "text"))
    for t in m.all_dot_brackets:
        lines = t.split("\n")
        ct = "".join(lines[3 * k + 2] for k in range(len(lines) // 3))
        d = decode(ct)
        if d is None or set(d) != pairs:
            problems.append((f"all_dot_brackets member {ct!r} does not decode to the BPSEQ matching", "text"))
    # ---- extended dot-bracket
    ext = m.extended_dot_bracket.split("\n")
    per = len(ext) // len(strands) if strands else 0
    if not strands or len(ext) != per * len(strands) or per < 2:
        problems.append((f"extended dot-bracket has {len(ext)} lines for {len(strands)} strands", "extended-shape"))
        return problems
    blocks = [ext[k * per:(k + 1) * per] for k in range(len(strands))]
    rows = []
    for ri in range(2, per):
        labels = {blk[ri].split(" ")[0] for blk in blocks}
        if len(labels) != 1:
            problems.append((f"extended rows are not aligned across strands: {[blk[ri] for blk in blocks]}", "extended-shape"))
            return problems
        rows.append((labels.pop(), "".join(blk[ri].split(" ", 1)[1] for blk in blocks)))
    got = {}
    for lab, s in rows:
        d = decode(s)
        if len(s) != N or d is None:
            problems.append((f"extended row {lab} {s!r} is unbalanced or not as long as the sequence ({N})", "extended-balanced"))
            continue
        for p in d:
            got[(p[0], p[1], lab)] = got.get((p[0], p[1], lab), 0) + 1
    if not any(c == "extended-balanced" for _, c in problems):
        want = {k: 1 for k in distinct}
        if got != want:
            problems.append((f"extended rows encode {sorted(got.items())}, the distinct input pairs are {sorted(distinct)}", "extended-pairs"))
    # purity across queries: the BPSEQ read again after all other outputs were produced is the same
    after = [(e.index_, e.sequence, e.pair) for e in m.bpseq.entries]
    if after != ent or str(m.bpseq) != "\n".join(f"{a} {b} {c}" for a, b, c in ent):
        problems.append((f"BPSEQ changed after dot-bracket / extended rows were produced: {[(x[0], x[2]) for x in after]} (was {[(x[0], x[2]) for x in ent]})", "bpseq-changed"))
    return problems


def body(sname, find_gaps, entries):
    from harness.e1_common import log, known_keys
    from rnapolis.tertiary import Mapping2D3D, Structure3D
    _fast_solver()
    residues = structures()[sname]
    problems = []
    try:
        m = Mapping2D3D(Structure3D(list(residues)), build_pairs(residues, entries), [], bool(find_gaps))
        problems = oracle(sname, bool(find_gaps), entries, m)
        # the other query order on a fresh mapping gives the same texts
        m2 = Mapping2D3D(Structure3D(list(residues)), build_pairs(residues, entries), [], bool(find_gaps))
        second = (m2.extended_dot_bracket, m2.dot_bracket, str(m2.bpseq))
        if second != (m.extended_dot_bracket, m.dot_bracket, str(m.bpseq)):
            problems.append(("outputs depend on the order in which they are requested", "query-order"))
    except Exception as e:  # noqa: BLE001
        problems.append((f"exception {type(e).__name__}: {e}", "exception"))
    keys = sorted({f"Mapping2D3D:{k}" for _, k in problems})
    ok = all(k in known_keys(PID) for k in keys)
    log({"p": [sname, int(find_gaps), [list(e) for e in entries]], "problems": [m_ for m_, _ in problems][:3], "keys": keys, "kind": "mapping"})
    return ok


def replay(rec):
    import harness.e1_common as ec
    saved = ec.known_keys
    ec.known_keys = lambda pid: set()
    try:
        sname, fg, entries = rec["p"]
        return body(sname, fg, [tuple(e) for e in entries])
    finally:
        ec.known_keys = saved


def _entry_formula(k, nl, ns, restrict_tail):
    import z3
    vs = []
    cons = []
    for i in range(k):
        a, b, l, s = z3.Int(f"a{i}"), z3.Int(f"b{i}"), z3.Int(f"l{i}"), z3.Int(f"s{i}")
        vs += [a, b, l, s]
        cons += [a >= 0, a <= 4, b >= 0, b <= 4, a != b, l >= 0, l < nl, s >= 0, s < ns]
        if restrict_tail and i >= 1:
            cons += [s == 0, l < 2]
    for i in range(k):
        for j in range(i + 1, k):
            ai, bi, li, si = vs[4 * i:4 * i + 4]
            aj, bj, lj, sj = vs[4 * j:4 * j + 4]
            same_pair = z3.Or(z3.And(ai == aj, bi == bj), z3.And(ai == bj, bi == aj))
            cons.append(z3.Implies(same_pair, si == sj))
    return vs, cons


def _cube(job):
    """AllSAT of the input formula with the first entry fixed (cube-and-conquer keeps the blocking-clause sets small)"""
    k, nl, ns, restrict_tail, first = job
    sys.path.insert(0, "/verif")
    from vlib import allsat
    vs, cons = _entry_formula(k, nl, ns, restrict_tail)
    cons = cons + [v == x for v, x in zip(vs[:4], first)]
    models, nq, dt = allsat.allsat(vs, cons)
    return [tuple(tuple(m[4 * i:4 * i + 4]) for i in range(k)) for m in models], nq, dt


def enumerate_inputs(k, nl, ns, restrict_tail=False):
    """AllSAT over k entries (a, b, lw, saenger): a != b in 0..4 (4 = absent residue), lw < nl, saenger < ns;
    no two entries name the same residue pair with different Saenger annotations"""
    from vlib import allsat
    from vlib.par import pmap
    if k == 0:
        return [()], 1, 0.0
    vs, cons = _entry_formula(1, nl, ns, False)
    firsts, nq, dt = allsat.allsat(vs, cons)
    if k == 1:
        return [(tuple(f),) for f in firsts], nq, dt
    out = []
    for models, q, t in pmap(_cube, [(k, nl, ns, restrict_tail, tuple(f)) for f in firsts]):
        out += models
        nq += q
        dt += t
    return out, nq, dt


def run(rep, tier):
    from vlib import allsat, e1
    parts = []
    plan = [(0, 2, 2), (1, 2, 2), (2, 2, 2)] if tier == "quick" else [(0, 3, 3), (1, 3, 3), (2, 3, 3)]
    tail = [(3, 2, 2)]
    total = 0
    for k, nl, ns in plan + tail:
        entries, nq, dt = enumerate_inputs(k, nl, ns, restrict_tail=(k == 3))
        rep.add(transitions=nq, solver_s=dt)
        inputs = [(sn, fg, e) for sn in ("contiguous", "gap", "two-chains") for fg in (0, 1) for e in entries]
        if k <= 2:
            inputs += [("chain-aba", 0, e) for e in entries]
        if k == 3:
            inputs = [(sn, fg, e) for sn, fg in (("contiguous", 0), ("gap", 1), ("two-chains", 1)) for e in entries]
        total += len(inputs)
        pt = allsat.run_family(f"k{k}_lw{nl}_saenger{ns}", "harness.c06", "body", inputs,
                               [f"{k} pair entries over 4 residues + 1 absent", f"{nl} LW classes, {ns} Saenger options",
                                "3 structures (contiguous / numbering gap / two chains) x gap detection on/off; for <= 2 entries also a chain id in two separate blocks (A, B, A)"], expected=len(inputs), chunksize=64)
        parts.append(pt)
    e1.collect(rep, parts, "harness.c06")
    rep.add(functions_encoded=["Mapping2D3D.base_pairs", "Mapping2D3D.bpseq / _generated_bpseq_data / __generate_bpseq", "Mapping2D3D.strands_sequences",
                               "Mapping2D3D.dot_bracket", "Mapping2D3D.all_dot_brackets", "Mapping2D3D.extended_dot_bracket",
                               "BasePair3D.reverse / is_canonical", "Structure3D.find_residue", "Residue3D.is_connected / is_nucleotide"],
            bounds={"residues": "4 nucleotides cut from 1ehz (+1 absent residue named in entries)", "entries": [list(x) for x in plan + tail],
                    "classes": LWN, "saenger": SAE, "outside": "longer pair lists, more residues, entries that repeat a pair+class with a different "
                    "Saenger label, stackings"},
            engines=["z3 AllSAT over the input formula (concretising mode of E2); native execution; exact z3 MILP stub"], exhaustive=True,
            rule="states = distinct inputs (AllSAT models x structure x gap flag); transitions = executions + AllSAT queries; obligation = family",
            stubs=["MILP solver -> in-process exact z3 stub"])
    rep.assume("canonical input pair = marked XIX/XX/XXVIII by its Saenger label or, without a label, cWW between A-U/A-T/C-G/G-U",
               "a pair and its reverse (j, i, reversed class) are the same input pair")
