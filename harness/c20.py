"""C20 — mmCIF item editing changes only its target; CLI output equals the library result (E2, data-model level).

`IoAdapterPy` in rnapolis.transformer is replaced by a stub that "reads" a two-category document into *real* mmcif
DataContainer / DataCategory objects whose cells are bounded symbolic strings (so '?', '.', quoted and multi-word
values are covered at the data-model level) and captures what is "written".  The tokenizer / writer of the mmcif
package are outside the claim.
"""
import sys
import time

PID = "C20"
DOC_TEXT = "data_verif\n# symbolic document; the adapter stub returns its parsed form\n"
VALUES = "PQRS"


def job(spec):
    fn, category, a, b, nrows = spec[:5]  # fn: 'copy' (a=copy_from, b=copy_to) | 'replace' (a=column)
    history = len(spec) > 5 and spec[5]   # a different edit of the same content precedes the call under test (purity across calls)
    sys.path.insert(0, "/verif")
    import copy as _copy
    import z3
    from symx.engine import Engine
    from symx import bstr as B
    import rnapolis.transformer as TR
    from mmcif.api.PdbxContainers import DataContainer
    from mmcif.api.DataCategory import DataCategory
    eng = Engine(timeout_ms=20000)
    ATTRS = ["id", "label_asym_id", "auth_asym_id"]
    cells = [[B.bvar(eng, f"c{r}_{k}", 3) for k in range(len(ATTRS))] for r in range(nrows)]
    other = [[B.bvar(eng, "o0_0", 2), "foo"], ["2", B.bvar(eng, "o1_1", 2)]]
    captured = {}

    def build():
        c = DataContainer("verif")
        c.append(DataCategory("atom_site", list(ATTRS), [list(r) for r in cells]))
        c.append(DataCategory("other", ["id", "val"], [list(r) for r in other]))
        return c

    class FakeAdapter:
        def readFile(self, path):
            with open(path) as f:
                text = f.read()
            return [build()] if text == DOC_TEXT else []

        def writeFile(self, path, data):
            captured["n"] = captured.get("n", 0) + 1
            captured["data"] = data
            with open(path, "w") as f:
                f.write(f"WRITTEN#{captured['n']}")
            return True
    TR.IoAdapterPy = FakeAdapter

    def run():
        if history:
            TR.copy_from_to(DOC_TEXT, "atom_site", "auth_asym_id", "id")
            TR.replace_value(DOC_TEXT, "other", "val", "XY")
        captured.clear()
        if fn == "copy":
            out = TR.copy_from_to(DOC_TEXT, category, a, b)
            return out, None, dict(captured)
        out, mapping = TR.replace_value(DOC_TEXT, category, a, VALUES)
        return out, mapping, dict(captured)
    t0 = time.time()
    paths = eng.explore(run)
    res = {"name": f"{fn}:{category}:{a}:{b}:{nrows}rows:history{int(bool(history))}", "paths": len(paths), "verdicts": [], "reach": 0}

    def same(x, y):
        """z3 formula: cell x equals cell y"""
        if x is y:
            return z3.BoolVal(True)
        e = (x == y) if isinstance(x, B.BStr) else ((y == x) if isinstance(y, B.BStr) else None)
        if e is None:
            return z3.BoolVal(x == y)
        return e.e if hasattr(e, "e") else z3.BoolVal(bool(e))

    def wit(m):
        if m is None:
            return None
        return {"spec": list(spec[:5]), "history": bool(history), "cells": [[B.conc(c, m) for c in r] for r in cells], "other": [[B.conc(c, m) for c in r] for r in other]}
    present = category == "atom_site" and a in ATTRS
    for path, out in paths:
        if isinstance(out, Exception):
            v, m, _ = eng.prove(path, z3.BoolVal(True))
            res["verdicts"].append({"ob": f"{fn} raised {type(out).__name__}: {out}", "v": v, "key": f"transformer.{fn}:exception", "w": wit(m)})
            continue
        text, mapping, cap = out
        if not present:
            bad = text != DOC_TEXT or cap.get("n", 0) != 0 or (fn == "replace" and mapping != {})
            v = "unsat"
            m = None
            if bad:
                v, m, _ = eng.prove(path, z3.BoolVal(True))
            res["verdicts"].append({"ob": f"missing category/source item: returned {text[:20]!r}, writes {cap.get('n', 0)} (must return the input and write nothing)",
                                    "v": v, "key": f"transformer.{fn}:missing-untouched", "w": wit(m)})
            continue
        res["reach"] += 1
        if cap.get("n", 0) != 1 or text != "WRITTEN#1":
            v, m, _ = eng.prove(path, z3.BoolVal(True))
            res["verdicts"].append({"ob": f"expected exactly one write whose text is returned; got {cap.get('n', 0)} writes, returned {text[:20]!r}", "v": v,
                                    "key": f"transformer.{fn}:write", "w": wit(m)})
            continue
        data = cap["data"][0]
        neg = []
        # other category untouched
        oc = data.getObj("other")
        if oc is None or oc.getAttributeList() != ["id", "val"] or len(oc.getRowList()) != 2 or data.getObjNameList().count("other") != 1:
            neg.append(z3.BoolVal(True))
        else:
            for r in range(2):
                for k in range(2):
                    neg.append(z3.Not(same(oc.getRowList()[r][k], other[r][k])))
        ac = data.getObj("atom_site")
        names = sorted(data.getObjNameList())
        if names != ["atom_site", "other"] or ac is None:
            neg.append(z3.BoolVal(True))
        else:
            attrs = ac.getAttributeList()
            rows = ac.getRowList()
            tgt = b if fn == "copy" else a
            want_attrs = ATTRS if tgt in ATTRS else ATTRS + [tgt]
            if list(attrs) != want_attrs or len(rows) != nrows or any(len(r) != len(want_attrs) for r in rows):
                neg.append(z3.BoolVal(True))
            else:
                j = want_attrs.index(tgt)
                for r in range(nrows):
                    for k in range(len(ATTRS)):
                        if k != j:
                            neg.append(z3.Not(same(rows[r][k], cells[r][k])))      # every other cell, same row order
                if fn == "copy":
                    i = ATTRS.index(a)
                    for r in range(nrows):
                        neg.append(z3.Not(same(rows[r][j], cells[r][i])))
                else:
                    # first-seen injective mapping onto VALUES, equal to the returned mapping
                    new = [rows[r][j] for r in range(nrows)]
                    if not all(isinstance(x, str) and len(x) == 1 for x in new) or new[0] != VALUES[0]:
                        neg.append(z3.BoolVal(True))
                    else:
                        seen = []
                        for r in range(nrows):
                            if new[r] not in seen:
                                if new[r] != VALUES[len(seen)]:
                                    neg.append(z3.BoolVal(True))
                                seen.append(new[r])
                        for r1 in range(nrows):
                            for r2 in range(r1 + 1, nrows):
                                eq_old = same(cells[r1][j], cells[r2][j])
                                neg.append(eq_old != z3.BoolVal(new[r1] == new[r2]))
                        # returned mapping: exactly {old value of the first row carrying v: v}
                        if not isinstance(mapping, dict) or sorted(mapping.values()) != sorted(seen):
                            neg.append(z3.BoolVal(True))
                        else:
                            for kk, vv in mapping.items():
                                first_row = new.index(vv)
                                neg.append(z3.Not(same(kk, cells[first_row][j])))
        v, m, _ = eng.prove(path, z3.Or(neg))
        res["verdicts"].append({"ob": f"{fn}({category}, {a}{', ' + str(b) if fn == 'copy' else ''}) changes something other than its target "
                                "(or the target is not source / first-seen image)", "v": v, "key": f"transformer.{fn}:only-target", "w": wit(m)})
    res.update(queries=eng.nq, solver_s=round(eng.tq, 2), unknown=eng.unknown, wall_s=round(time.time() - t0, 2), present=present)
    return res


def job_main(spec):
    """transformer.main() on a fake file system: the file written must equal what the library call returns for the input file's content"""
    full_mode = spec
    mode = full_mode.split("-")[0]
    inplace = full_mode.endswith("-inplace")       # the output path is the input path (the tool is run in place)
    sys.path.insert(0, "/verif")
    import io
    import rnapolis.transformer as TR
    files = {"/fake/in.cif": DOC_TEXT}
    written = {}
    calls = []

    class FF(io.StringIO):
        def __init__(self, path, mode_):
            super().__init__(files.get(path, "") if "r" in mode_ else "")
            self.path, self.mode_ = path, mode_

        def read(self, *a):
            # the content is what the file holds when it is read, not when it was opened
            return files.get(self.path, "") if "r" in self.mode_ else super().read(*a)

        def write(self, s):
            if not isinstance(s, str):
                raise TypeError(f"write() argument must be str, not {type(s).__name__}")
            return super().write(s)

        def __exit__(self, *a):
            if "w" in self.mode_:
                written[self.path] = self.getvalue()
                files[self.path] = self.getvalue()
            return super().__exit__(*a)

    def fake_open(path, mode_="r", *a, **k):
        if "r" in mode_ and path not in files:
            raise FileNotFoundError(path)
        if "w" in mode_:
            files[path] = ""          # opening for writing truncates the file at once
        return FF(path, mode_)

    def lib_copy(content, category, frm, to):
        calls.append(("copy", content, category, frm, to))
        return "LIB(" + content + ")"

    def lib_replace(content, category, column, values):
        calls.append(("replace", content, category, column, values))
        return "LIB(" + content + ")", {"A": "P"}

    class Args:
        input = "/fake/in.cif"
        output = "/fake/in.cif" if inplace else "/fake/out.cif"
        category = "atom_site"
        copy_from = "label_asym_id" if mode == "copy" else None
        copy_to = "auth_asym_id" if mode == "copy" else None
        replace = "auth_asym_id" if mode == "replace" else None
        values = "PQRS" if mode == "replace" else None

    class FakeParser:
        def __init__(self, *a, **k):
            pass

        def add_argument(self, *a, **k):
            pass

        def parse_args(self):
            return Args

        def print_help(self):
            pass
    ns = TR.__dict__
    saved = {k: ns.get(k) for k in ("open", "copy_from_to", "replace_value")}
    saved_ap = TR.argparse.ArgumentParser
    res = {"name": f"main:{full_mode}", "paths": 1, "verdicts": [], "reach": 1, "queries": 0, "solver_s": 0.0, "unknown": 0, "wall_s": 0.0, "present": True}
    try:
        ns["open"] = fake_open
        ns["copy_from_to"] = lib_copy
        ns["replace_value"] = lib_replace
        TR.argparse.ArgumentParser = FakeParser
        try:
            TR.main()
            err = None
        except Exception as e:  # noqa: BLE001
            err = f"{type(e).__name__}: {e}"
    finally:
        for k, v in saved.items():
            if v is None:
                ns.pop(k, None)
            else:
                ns[k] = v
        TR.argparse.ArgumentParser = saved_ap
    want = "LIB(" + DOC_TEXT + ")"
    got = written.get(Args.output)
    if err is not None:
        res["verdicts"].append({"ob": f"main() raised {err}", "v": "sat", "key": f"transformer.main:{mode}:exception", "w": {"mode": full_mode}})
    elif got != want:
        res["verdicts"].append({"ob": f"main() wrote {got!r}; the library result for the file's content is {want!r} (library was called with {calls})",
                                "v": "sat", "key": f"transformer.main:{mode}:output", "w": {"mode": full_mode}})
    else:
        res["verdicts"].append({"ob": "main() writes the library result for the file's content", "v": "unsat", "key": "-", "w": None})
    return res


REPLAY_MAIN = '''
import tempfile, os, io, contextlib
import rnapolis.transformer as TR
full_mode = {mode!r}
mode = full_mode.split("-")[0]
doc = open(os.path.join(os.environ.get("VERIF_REPO_SRC", "/repo/src"), "..", "tests", "4gqj-assembly1.cif")).read()
d = tempfile.mkdtemp(); inp = os.path.join(d, "in.cif"); outp = inp if full_mode.endswith("-inplace") else os.path.join(d, "out.cif")
open(inp, "w").write(doc)
if mode == "copy":
    want = TR.copy_from_to(doc, "atom_site", "label_asym_id", "auth_asym_id")
    sys.argv = ["transformer", inp, outp, "--category", "atom_site", "--copy-from", "label_asym_id", "--copy-to", "auth_asym_id"]
else:
    want = TR.replace_value(doc, "atom_site", "auth_asym_id", "PQRS")[0]
    sys.argv = ["transformer", inp, outp, "--category", "atom_site", "--replace", "auth_asym_id", "--values", "PQRS"]
try:
    TR.main()
except Exception as e:
    print("main() raised", type(e).__name__, e); sys.exit(1)
got = open(outp).read()
print("output equals library result:", got == want, "| output starts with", repr(got[:60]))
sys.exit(0 if got == want else 1)
'''

REPLAY_LIB = '''
import rnapolis.transformer as TR
from mmcif.api.PdbxContainers import DataContainer
from mmcif.api.DataCategory import DataCategory
w = {w!r}
fn, category, a, b, nrows = w["spec"]
DOC = "data_verif\\n"
ATTRS = ["id", "label_asym_id", "auth_asym_id"]
cap = {{}}
def build():
    c = DataContainer("verif")
    c.append(DataCategory("atom_site", list(ATTRS), [list(r) for r in w["cells"]]))
    c.append(DataCategory("other", ["id", "val"], [list(r) for r in w["other"]]))
    return c
class FakeAdapter:
    def readFile(self, path): return [build()] if open(path).read() == DOC else []
    def writeFile(self, path, data):
        cap["data"] = data; cap["n"] = cap.get("n", 0) + 1; open(path, "w").write("WRITTEN"); return True
TR.IoAdapterPy = FakeAdapter
try:
    if w.get("history"):
        TR.copy_from_to(DOC, "atom_site", "auth_asym_id", "id"); TR.replace_value(DOC, "other", "val", "XY"); cap.clear()
    out = TR.copy_from_to(DOC, category, a, b) if fn == "copy" else TR.replace_value(DOC, category, a, "PQRS")
except Exception as e:
    print("raised", type(e).__name__, e); sys.exit(1)
present = category == "atom_site" and a in ATTRS
if not present:
    text = out if fn == "copy" else out[0]
    sys.exit(1 if (text != DOC or cap.get("n")) else 0)
d = cap["data"][0]; bad = False
oc = d.getObj("other")
if oc.getAttributeList() != ["id", "val"] or [list(r) for r in oc.getRowList()] != [list(r) for r in w["other"]]: bad = True
ac = d.getObj("atom_site"); tgt = b if fn == "copy" else a
want_attrs = ATTRS if tgt in ATTRS else ATTRS + [tgt]
rows = [list(r) for r in ac.getRowList()]
if list(ac.getAttributeList()) != want_attrs or len(rows) != nrows or any(len(r) != len(want_attrs) for r in rows): bad = True
else:
    j = want_attrs.index(tgt)
    for r in range(nrows):
        for k in range(3):
            if k != j and rows[r][k] != w["cells"][r][k]: bad = True
        if fn == "copy" and rows[r][j] != w["cells"][r][ATTRS.index(a)]: bad = True
    if fn == "replace":
        m = {{}}
        for r in range(nrows):
            old = w["cells"][r][j]
            if old not in m: m[old] = "PQRS"[len(m)]
            if rows[r][j] != m[old]: bad = True
        if out[1] != m: bad = True
print(fn, category, a, b, "->", rows, "bad" if bad else "ok")
sys.exit(1 if bad else 0)
'''


def _dispatch(spec):
    kind, sp = spec
    return job(sp) if kind == "lib" else job_main(sp)


def run(rep, tier):
    from vlib.core import Violation
    from vlib.par import pmap, Crashed
    n = 2 if tier == "quick" else 3
    specs = []
    for cat in ("atom_site", "absent_cat"):
        for frm in ("label_asym_id", "absent_item"):
            for to in ("auth_asym_id", "new_item", "id", "label_asym_id"):
                if cat == "absent_cat" and (frm, to) != ("label_asym_id", "auth_asym_id"):
                    continue
                specs.append(("lib", ("copy", cat, frm, to, n)))
        for col in ("auth_asym_id", "id", "absent_item"):
            if cat == "absent_cat" and col != "auth_asym_id":
                continue
            specs.append(("lib", ("replace", cat, col, None, n)))
    if tier != "quick":
        specs.append(("lib", ("replace", "atom_site", "label_asym_id", None, 4)))
        specs.append(("lib", ("copy", "atom_site", "id", "new_item", 4)))
    specs += [("lib", ("copy", "atom_site", "label_asym_id", "auth_asym_id", n, True)), ("lib", ("replace", "atom_site", "auth_asym_id", None, n, True)),
              ("lib", ("copy", "atom_site", "label_asym_id", "new_item", n, True))]
    specs += [("main", "copy"), ("main", "replace"), ("main", "copy-inplace"), ("main", "replace-inplace")]
    results = pmap(_dispatch, specs)
    for (kind, sp), r in zip(specs, results):
        if isinstance(r, Crashed):
            rep.harness_error(f"job {sp} crashed: {r.why}")
            continue
        rep.add(states=r["paths"], transitions=max(r["queries"], 1), solver_s=r["solver_s"])
        rep.cov.setdefault("groups", []).append({k: r.get(k) for k in ("name", "paths", "queries", "unknown", "wall_s")})
        if r["reach"] or not r.get("present", True):
            rep.add(reachability_witnesses=1)
        else:
            rep.harness_error(f"{r['name']}: the editing path is never reached")
        for v in r["verdicts"]:
            rep.add(obligations=1)
            if v["v"] == "unsat":
                rep.add(discharged=1)
            elif v["v"] == "sat":
                rep.add(discharged=1)
                if v["w"] is None:
                    rep.harness_error(f"{r['name']}: {v['ob']} (no witness)")
                elif kind == "main":
                    rep.violation(Violation(v["key"], v["ob"], REPLAY_MAIN.format(mode=v["w"]["mode"]), witness=v["w"]))
                else:
                    rep.violation(Violation(v["key"], f"{v['ob']}: {v['w']}", REPLAY_LIB.format(w=v["w"]), witness=v["w"]))
            else:
                rep.add(undecided=1)
        rep.sample({"group": r["name"], "paths": r["paths"], "verdicts": [(v["ob"][:70], v["v"]) for v in r["verdicts"][:2]]}, cap=8)
    rep.add(functions_encoded=["transformer.copy_from_to", "transformer.replace_value", "transformer.main",
                               "mmcif DataContainer / DataCategory (real objects, symbolic cells)"],
            bounds={"document": f"two categories; atom_site with 3 items x {n} rows of symbolic cells (any printable string of length <= 3, so '?', '.', "
                    "blanks and quotes occur), other with 2x2 cells", "choices": "category present/absent; source present/absent; target existing / new / "
                    "the key item / the source itself", "alphabet": VALUES,
                    "outside": "the mmcif tokenizer and writer (quoting, loop layout); more rows than substitution characters"},
            engines=["E2 symx bounded strings + z3"],
            rule="states = explored paths (equality patterns among cells); transitions = solver queries; one obligation per path",
            stubs=["IoAdapterPy.readFile/writeFile (returns / captures real DataContainer objects)", "main(): argparse, open, the two library functions"])
    rep.assume("the adapter parses the written temporary file into the document and returns no container for anything else",
               "category order inside the file is not part of the property (the data model is keyed by name)")
