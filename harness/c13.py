"""C13 — dot-bracket generation survives every solver configuration and solver fault.

Level: fault_enumeration.  The space (pairing table) x (entry point, solver configuration, fault
behaviour, second call on the same object) is described by one z3 formula and enumerated
completely (AllSAT); each case runs the real code natively with the solver environment
replaced by stubs, and the result is compared with independent oracles (lossless decoder,
FCFS reference, and the z3 optimality query of C02 when the stub solved the problem).
"""
from harness.pairing_lib import *

PID = "C13"
LEVEL = "fault_enumeration"

MODES = {-1: "no solver (None)", 0: "raises PulpSolverError", 1: "status Not Solved", 2: "status Infeasible",
         3: "status Unbounded", 4: "status Undefined", 5: "solves to optimality"}


def _behaviour(mode):
    import pulp
    if mode == 0:
        return ("raise",)
    if mode in (1, 2, 3, 4):
        return ("status", [pulp.LpStatusNotSolved, pulp.LpStatusInfeasible, pulp.LpStatusUnbounded, pulp.LpStatusUndefined][mode - 1])
    return None  # solve exactly


def _mk(mode):
    from vlib import e3
    return None if mode == -1 else e3.CaptureSolver(_behaviour(mode))


def _judge(pc, seq, d, mode, solver, name, problems):
    from vlib import e3
    if d is None:
        return
    s = d.structure
    for pr in lossless_problems(pc, seq, d.sequence, s):
        problems.append((f"{name} [{MODES[mode]}]: {pr}", "lossless"))
        return
    kn = is_knotted(pc)
    consulted = solver is not None and getattr(solver, "called", 0) > 0
    if kn and mode != -1 and not consulted:
        problems.append((f"{name}: knotted structure but the configured solver was never consulted", "solver-selection"))
    if not kn or mode != 5:
        want = fcfs_reference(pc)
        if s != want:
            problems.append((f"{name} [{MODES[mode]}]: {s!r} is not the first-come-first-served encoding {want!r}", "fallback"))
    else:
        stems, lv = levels_by_stem(pc, s)
        r, better = e3.spec_better_exists(stems, lv)
        if r == "sat":
            problems.append((f"{name} [solver ok]: {s!r} is not optimal", "optimal"))


def body(p, entry, x, y):
    from harness.e1_common import log, known_keys
    import pulp
    import rnapolis.common as C
    from rnapolis.common import BpSeq, Entry
    pc = list(p)
    n = len(pc)
    seq = "".join(LETTERS[i % 26] for i in range(n))
    problems = []

    def fresh():
        return BpSeq([Entry(i + 1, seq[i], pc[i]) for i in range(n)])
    saved = (pulp.HiGHS_CMD, pulp.LpSolverDefault)
    try:
        if entry == 0:
            b = fresh()
            for k, mode in enumerate((x, y)):
                solver = _mk(mode)
                try:
                    d = b.convert_to_dot_bracket(solver)
                except Exception as e:  # noqa: BLE001
                    problems.append((f"convert_to_dot_bracket call #{k + 1} [{MODES[mode]}] raises {type(e).__name__}: {e}",
                                     "raises:no-solver" if mode == -1 else "raises:fault"))
                    continue
                _judge(pc, seq, d, mode, solver, f"convert_to_dot_bracket call #{k + 1}", problems)
            # the object itself must be unharmed by the faults
            if str(b) != "\n".join(f"{i + 1} {seq[i]} {pc[i]}" for i in range(n)):
                problems.append(("BPSEQ text changed after solver faults", "state"))
        else:
            holder = {}
            if entry == 1:
                # HiGHS present: HiGHS_CMD() is instantiated twice by the library (availability test, then use)
                def factory(*a, **k):
                    holder["solver"] = _mk(x)
                    return holder["solver"]
                pulp.HiGHS_CMD = factory
            else:
                class NoHiGHS:
                    def __init__(self, *a, **k):
                        pass

                    def available(self):
                        return False
                pulp.HiGHS_CMD = NoHiGHS
                dflt = _mk(x)
                holder["solver"] = dflt
                pulp.LpSolverDefault = dflt
            b = fresh()
            try:
                d = b.dot_bracket
            except Exception as e:  # noqa: BLE001
                problems.append((f"dot_bracket [{'HiGHS' if entry == 1 else 'default solver'}: {MODES[x]}] raises {type(e).__name__}: {e}",
                                 "raises:no-solver" if x == -1 else "raises:fault"))
                d = None
            _judge(pc, seq, d, x, holder.get("solver"), "dot_bracket", problems)
            if d is not None:
                # second query answers the same (cached) and without_pseudoknots works on it
                if b.dot_bracket.structure != d.structure:
                    problems.append(("dot_bracket changes between two reads", "state"))
    finally:
        pulp.HiGHS_CMD, pulp.LpSolverDefault = saved
    keys = sorted({f"BpSeq.dot_bracket:{k}" for _, k in problems})
    ok = all(k in known_keys(PID) for k in keys)
    log({"p": [pc, entry, x, y], "problems": [m for m, _ in problems][:4], "keys": keys, "kind": "fault"})
    return ok


def replay(rec):
    import harness.e1_common as ec
    saved = ec.known_keys
    ec.known_keys = lambda pid: set()
    try:
        pc, entry, x, y = rec["p"]
        return body(pc, entry, x, y)
    finally:
        ec.known_keys = saved


def run(rep, tier):
    import z3
    from vlib import allsat, e1
    Nmax = 6 if tier == "quick" else 8
    parts = []
    total_expected = 0
    for n in range(1, Nmax + 1):
        # the case formula is a conjunction of two independent parts (pairing table, solver configuration): each part is enumerated by
        # AllSAT and the models are combined (one joint AllSAT over 47 000 models spends its time in the blocking clauses)
        P, consP = allsat.pairing_vars(n)
        E, X, Y = z3.Int("entry"), z3.Int("x"), z3.Int("y")
        consC = [z3.Or(
            z3.And(E == 0, X >= -1, X <= 5, Y >= -1, Y <= 5),      # direct calls, two in a row on one object
            z3.And(E == 1, X >= 0, X <= 5, Y == 0),                # dot_bracket, HiGHS available with behaviour X
            z3.And(E == 2, X >= -1, X <= 5, Y == 0))]              # dot_bracket, HiGHS absent, default solver X (None = -1)
        mp, nq1, dt1 = allsat.pairings(n)
        mc, nq2, dt2 = allsat.allsat([E, X, Y], consC)
        nq, dt = nq1 + nq2, dt1 + dt2
        inputs = [(p_, c_[0], c_[1], c_[2]) for p_ in mp for c_ in mc]
        exp = len(list(all_pairings(n))) * (49 + 6 + 7)
        rep.add(transitions=nq, solver_s=dt)
        if len(inputs) != exp:
            rep.harness_error(f"n={n}: AllSAT gave {len(inputs)} cases, independent count {exp}")
        pt = allsat.run_family(f"faults_n{n}", "harness.c13", "body", inputs,
                               [f"pairing on {n} positions", "entry in {convert_to_dot_bracket x2, dot_bracket+HiGHS, dot_bracket+default}",
                                "behaviour in {None, raise, NotSolved, Infeasible, Unbounded, Undefined, ok}"], expected=exp, chunksize=32)
        parts.append(pt)
    # structured families: two independent knots (FCFS state across stems) and >= 11 stems (index-dependent read-back), a subset of configurations
    tails = [p for n in (4, 5, 6) for p in all_pairings(n) if is_knotted(p)]
    small = [p for n in (4, 5) for p in all_pairings(n) if is_knotted(p)]
    structs = [concat(a, b) for a in tails for b in small] + [padded(k, tails[0]) for k in (8, 9, 10, 11, 12)]
    structs = [list(t) for t in dict.fromkeys(tuple(x) for x in structs)]       # a tail with a trailing unpaired position duplicates a shorter one
    cfgs = [(0, -1, -1), (0, 0, 5), (0, 1, 5), (0, 2, 2), (0, 3, 0), (0, 4, 4), (0, 5, 0), (1, 0, 0), (1, 5, 0), (2, -1, 0), (2, 1, 0), (2, 5, 0)]
    fam = [(p, c[0], c[1], c[2]) for p in structs for c in cfgs]
    pt = allsat.run_family("families", "harness.c13", "body", fam, ["two knotted structures one after the other; k leading hairpins + knot (k = 8..12)",
                                                                      f"{len(cfgs)} entry / configuration / fault combinations"], expected=len(fam), chunksize=32)
    parts.append(pt)
    e1.collect(rep, parts, "harness.c13")
    # exploration-style keys required for the fault_enumeration level
    nontrivial = 0
    evals = 0
    for pt in parts:
        for r in pt.records:
            evals += 1
            pc, entry, x, y = r["p"]
            if is_knotted(pc) or x == -1 or (entry == 0 and y == -1):
                nontrivial += 1
    rep.add(evaluations=evals, distinct_nontrivial=nontrivial,
            rule="cases = all models of the z3 formula (valid pairing table, N<=Nmax) x (entry point, solver configuration, fault behaviour, "
                 "second call); AllSAT with blocking clauses, so every case is distinct; non-trivial = the solver or the no-solver fallback is "
                 "actually reached (knotted structure, or solver None)",
            functions_encoded=["BpSeq.dot_bracket (solver selection)", "BpSeq.convert_to_dot_bracket (no-solver fallback, exception fallback, "
                               "status fallback, read-back)", "BpSeq.fcfs"],
            bounds={"pairings N<=": Nmax, "fault behaviours": list(MODES.values()), "call sequences": "two consecutive convert_to_dot_bracket calls on one object",
                    "outside": "faults other than PulpSolverError/status codes (e.g. solver returns garbage values with status Optimal)"},
            engines=["z3 AllSAT (case enumeration)", "z3 LIA (optimality query when the stub solves)"], exhaustive=True,
            stubs=["pulp.HiGHS_CMD (availability + behaviour)", "pulp.LpSolverDefault", "solver object passed to convert_to_dot_bracket"])
    rep.assume("a solver fault is a PulpSolverError or a non-optimal status; a solver that reports Optimal returns an optimal solution")
