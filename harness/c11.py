"""C11 — interaction lists are well-formed and self-consistent (E2 + finite SMT; partial).

S  Saenger / Leontis-Westhof: the real `detect_saenger` with symbolic one-letter names and a symbolic class: the value for
   (a, b, lw) equals the value for (b, a, lw.reverse); `reverse` is an involution; is_canonical <=> XIX / XX / XXVIII.
P  lists produced by the real `find_pairs` on abstracted geometry (harness/pairs_logic.py): base pairs list the lower residue
   first, are sorted, never repeat, never join a residue with itself, carry the table's Saenger class; every base-phosphate /
   base-ribose contact runs from a base donor atom to a phosphate / ribose oxygen that is in range, carries a class implied by
   the donor atoms in contact (pinned Zirbel table incl. 3+5->4, 7+9->8), never joins a residue with itself, and a residue pair
   carries at most one class of each kind.
T  the real `find_stackings` on three residues stacked along an axis with symbolic gaps: each pair at most once, lower
   residue first, list sorted, no self pair, participants restricted to the analysed model.
"""
import fractions
import itertools
import sys
import time

PID = "C11"
F = fractions.Fraction


def job_saenger(spec):
    sys.path.insert(0, "/verif")
    import z3
    from symx.engine import Engine
    from symx import bstr as B
    import rnapolis.annotator as A
    from rnapolis.common import LeontisWesthof, Saenger
    eng = Engine(timeout_ms=20000)
    ns = B.instrument_module_functions(A, ["detect_saenger"], eng)
    a = B.bvar(eng, "a", 1, minlen=1, charset="ACGUTaN")
    b = B.bvar(eng, "b", 1, minlen=1, charset="ACGUTaN")
    lo, hi = spec
    sel = eng.int("lw", lo, hi)
    LWS = list(LeontisWesthof)

    class R:
        def __init__(self, n):
            self.one_letter_name = n
    t0 = time.time()

    def run():
        lw = LWS[sel.concretize()]
        return lw, ns["detect_saenger"](R(a), R(b), lw), ns["detect_saenger"](R(b), R(a), lw.reverse)
    paths = eng.explore(run, maxpaths=50000)
    res = {"name": f"saenger-symmetry:{lo}-{hi}", "paths": len(paths), "verdicts": [], "reach": 0}
    table = Saenger.table()
    for path, out in paths:
        if isinstance(out, Exception):
            v, m, _ = eng.prove(path, z3.BoolVal(True))
            res["verdicts"].append({"ob": f"detect_saenger raised {type(out).__name__}: {out}", "v": v, "key": "detect_saenger:exception",
                                    "w": None if m is None else {"a": a.concretize(m), "b": b.concretize(m), "lw": LWS[m.eval(sel.e, model_completion=True).as_long()].value}})
            continue
        lw, s1, s2 = out
        if s1 is not None:
            res["reach"] += 1
        bad = (s1 != s2) or (lw.reverse.reverse is not lw)
        v, m = "unsat", None
        if bad:
            v, m, _ = eng.prove(path, z3.BoolVal(True))
        res["verdicts"].append({"ob": f"Saenger class of a pair ({s1}) differs from that of its reverse ({s2}) for {lw.value}", "v": v,
                                "key": "detect_saenger:symmetry",
                                "w": None if m is None else {"a": a.concretize(m), "b": b.concretize(m), "lw": lw.value}})
        # value equals the table entry, present exactly when the table defines one
        neg = []
        for (seq, l), name in table.items():
            hit = z3.And(a.chars[0] == ord(seq[0]), b.chars[0] == ord(seq[1])) if l == lw.value else None
            if hit is not None:
                neg.append(z3.And(hit, z3.BoolVal(s1 is None or s1.value != name)))
        if s1 is not None:
            neg.append(z3.Not(z3.Or([z3.And(a.chars[0] == ord(seq[0]), b.chars[0] == ord(seq[1])) for (seq, l), name in table.items()
                                     if l == lw.value and name == s1.value] + [z3.BoolVal(False)])))
        v, m, _ = eng.prove(path, z3.Or(neg + [z3.BoolVal(False)]))
        res["verdicts"].append({"ob": f"Saenger class {s1} for {lw.value} does not match the table", "v": v, "key": "detect_saenger:table",
                                "w": None if m is None else {"a": a.concretize(m), "b": b.concretize(m), "lw": lw.value}})
    canon = {s.name for s in Saenger if s.is_canonical}
    if canon != {"XIX", "XX", "XXVIII"}:
        res["verdicts"].append({"ob": f"is_canonical holds for {sorted(canon)}", "v": "sat", "key": "Saenger.is_canonical", "w": {"a": "C", "b": "G", "lw": "cWW"}})
    res.update(queries=eng.nq, solver_s=round(eng.tq, 2), unknown=eng.unknown, wall_s=round(time.time() - t0, 2))
    return res


REPLAY_SAENGER = '''
from rnapolis.annotator import detect_saenger
from rnapolis.common import LeontisWesthof, Saenger
w = {w!r}
class R:
    def __init__(self, n): self.one_letter_name = n
lw = LeontisWesthof[w["lw"]]
s1 = detect_saenger(R(w["a"]), R(w["b"]), lw); s2 = detect_saenger(R(w["b"]), R(w["a"]), lw.reverse)
want = Saenger.table().get((w["a"] + w["b"], lw.value))
print(w, s1, s2, want, sorted(s.name for s in Saenger if s.is_canonical))
bad = s1 != s2 or (s1.value if s1 else None) != want or lw.reverse.reverse is not lw or {{s.name for s in Saenger if s.is_canonical}} != {{"XIX", "XX", "XXVIII"}}
sys.exit(1 if bad else 0)
'''


def job_lists(spec):
    cfg_name, order = spec
    sys.path.insert(0, "/verif")
    import z3
    from harness import pairs_logic as PL
    from rnapolis.common import Saenger
    t0 = time.time()
    eng, paths, info = PL.explore(cfg_name, order)
    contacts = PL.contacts_of(info)
    spec_t = PL.load_spec()
    cfg = info["cfg"]
    res = {"name": f"lists:{cfg_name}:{order}", "paths": len(paths), "verdicts": [], "reach": 0}
    ident = [(c, n) for (_, c, n, _) in cfg]

    def rid(r):
        return (r.auth.chain, r.auth.number)

    def tor_cis(donor_res, quad):
        key = tuple((cfg[donor_res][1], cfg[donor_res][2], nm) if k < 3 else quad[3] for k, nm in enumerate(quad))
        return None

    def wit(m):
        if m is None:
            return None
        val = {str(c["key"]): {"near": bool(m.eval(c["near"], model_completion=True)), "accepted": bool(m.eval(c["accepted"], model_completion=True))}
               for c in contacts}
        tors = {str(k): float(m.eval(t.e, model_completion=True).as_fraction()) for k, t in info["torsions"].items()}
        return {"cfg": cfg_name, "order": order, "contacts": val, "torsions": tors}

    def class_formula(c, k):
        """z3: contact c (donor -> phosphate/ribose oxygen) is in range and has Zirbel class k"""
        d_res, d_atom = c["donor"]
        z = PL.ZIRBEL.get((cfg[d_res][0], d_atom))
        if z is None:
            return z3.BoolVal(False)
        if not isinstance(z, tuple):
            return c["near"] if z == k else z3.BoolVal(False)
        _, cis_k, trans_k, (n1, n2) = z
        if k not in (cis_k, trans_k):
            return z3.BoolVal(False)
        a_res, a_atom = c["acceptor"]
        key = ((cfg[d_res][1], cfg[d_res][2], n1), (cfg[d_res][1], cfg[d_res][2], n2), (cfg[d_res][1], cfg[d_res][2], d_atom),
               (cfg[a_res][1], cfg[a_res][2], a_atom))
        key = min(key, key[::-1])
        t = info["torsions"].get(key)
        if t is None:
            t = eng.real(f"torsion_late_{len(info['torsions'])}")
            eng.assume(t.e > -180, t.e <= 180, t.e != 90, t.e != -90)
            info["torsions"][key] = t
        cis = z3.And(t.e > -90, t.e < 90)
        return z3.And(c["near"], cis if k == cis_k else z3.Not(cis))

    for path, out in paths:
        if isinstance(out, Exception):
            v, m, _ = eng.prove(path, z3.BoolVal(True))
            res["verdicts"].append({"ob": f"find_pairs raised {type(out).__name__}: {out}", "v": v, "key": "find_pairs:exception", "w": wit(m)})
            continue
        bps, bphs, brs = out
        if bphs or brs or bps:
            res["reach"] += 1
        problems = []
        keys = [(rid(b.nt1), rid(b.nt2), b.lw.value) for b in bps]
        if len(set(keys)) != len(keys):
            problems.append("a base pair repeats")
        for b in bps:
            if rid(b.nt1) == rid(b.nt2):
                problems.append("a base pair joins a residue with itself")
            if not (rid(b.nt1) < rid(b.nt2)):
                problems.append("a base pair does not list the lower residue first")
            if rid(b.nt1) not in ident or rid(b.nt2) not in ident:
                problems.append("a base pair names a residue that is not in the structure")
            letters = {i: cfg[k][0] for k, i in enumerate(ident)}
            want = Saenger.table().get((letters[rid(b.nt1)] + letters[rid(b.nt2)], b.lw.value))
            if (b.saenger.value if b.saenger else None) != want:
                problems.append(f"Saenger class {b.saenger} of {b.lw.value} differs from the table ({want})")
        if keys != sorted(keys):
            problems.append("base pairs are not sorted")
        neg = []
        for kind, lst, oxy in (("base-phosphate", bphs, spec_t["PHOSPHATE_ACCEPTORS"]), ("base-ribose", brs, spec_t["RIBOSE_ACCEPTORS"])):
            seen = set()
            for it in lst:
                d, a = rid(it.nt1), rid(it.nt2)
                if d == a:
                    problems.append(f"a {kind} contact joins a residue with itself")
                if (d, a) in seen:
                    problems.append(f"a residue pair carries two {kind} classes")
                seen.add((d, a))
                if d not in ident or a not in ident:
                    problems.append(f"a {kind} contact names an unknown residue")
                    continue
                dres, ares = ident.index(d), ident.index(a)
                k = int((it.bph if kind == "base-phosphate" else it.br).value[0])
                cands = [c for c in contacts if c["donor"][0] == dres and c["acceptor"][0] == ares and c["acceptor"][1] in oxy
                         and c["donor"][1] in spec_t["BASE_DONORS"].get(cfg[dres][0], [])]
                alts = [class_formula(c, k) for c in cands]
                if k == 4:
                    alts.append(z3.And(z3.Or([class_formula(c, 3) for c in cands] + [z3.BoolVal(False)]),
                                       z3.Or([class_formula(c, 5) for c in cands] + [z3.BoolVal(False)])))
                if k == 8:
                    alts.append(z3.And(z3.Or([class_formula(c, 7) for c in cands] + [z3.BoolVal(False)]),
                                       z3.Or([class_formula(c, 9) for c in cands] + [z3.BoolVal(False)])))
                neg.append(z3.Not(z3.Or(alts + [z3.BoolVal(False)])))
        if problems:
            v, m, _ = eng.prove(path, z3.BoolVal(True))
            res["verdicts"].append({"ob": "; ".join(sorted(set(problems))), "v": v, "key": "find_pairs:list-shape", "w": wit(m)})
        v, m, _ = eng.prove(path, z3.Or(neg + [z3.BoolVal(False)]))
        res["verdicts"].append({"ob": f"a base-phosphate/base-ribose contact {[x.bph.value for x in bphs] + [x.br.value for x in brs]} has no in-range donor->oxygen "
                                "contact implying its class", "v": v, "key": "find_pairs:bph-br-class", "w": wit(m)})
    res.update(queries=eng.nq, solver_s=round(eng.tq, 2), unknown=eng.unknown, wall_s=round(time.time() - t0, 2))
    return res


def job_stack3(spec):
    """find_stackings on three residues along an axis; symbolic gaps; identities permuted; model filter"""
    perm, model_arg = spec
    sys.path.insert(0, "/verif")
    import z3
    import numpy
    from symx.engine import Engine
    from symx.shims import MathShim
    import rnapolis.annotator as A
    from rnapolis.tertiary import Atom, Residue3D, Structure3D, BASE_ATOMS
    from rnapolis.common import ResidueAuth
    from harness.c04 import KD
    eng = Engine(timeout_ms=10000)
    A.KDTree = KD
    A.math = MathShim()
    g1, g2 = eng.real("g1"), eng.real("g2")
    eng.assume(g1.e > 0, g1.e <= 8, g2.e > 0, g2.e <= 8)
    idents = [("A", 5, None), ("A", 6, None), ("B", 1, None)] if model_arg != "icode" else [("A", 6, None), ("A", 6, "A"), ("A", 6, "B")]
    idents = [idents[k] for k in perm]
    if model_arg == "icode":
        model_arg = None
    models = [model_arg, model_arg, model_arg + 1] if model_arg is not None else [1, 1, 1]
    zs = [eng.const(0), g1, g1 + g2]

    def mk(k):
        auth = ResidueAuth(idents[k][0], idents[k][1], idents[k][2], "G")
        ats = tuple(Atom(None, None, auth, models[k], an, 1.0 * sg, 2.0 * sg, zs[k] + 0, 1.0) for an, sg in ((BASE_ATOMS["G"][0], 1), (BASE_ATOMS["G"][-1], -1)))
        r = Residue3D(None, auth, models[k], "G", ats)
        r.__dict__["base_normal_vector"] = numpy.array([0.0, 0.0, -1.0])       # v = c_first - c_second = -z
        return r
    t0 = time.time()

    def run():
        return A.find_stackings(Structure3D([mk(0), mk(1), mk(2)]), model_arg)
    paths = eng.explore(run)
    res = {"name": f"stack3:{perm}:model{spec[1]}", "paths": len(paths), "verdicts": [], "reach": 0}
    for path, out in paths:
        if isinstance(out, Exception):
            v, m, _ = eng.prove(path, z3.BoolVal(True))
            res["verdicts"].append({"ob": f"find_stackings raised {type(out).__name__}: {out}", "v": v, "key": "find_stackings:exception", "w": None})
            continue
        if out:
            res["reach"] += 1
        keys = [((s.nt1.auth.chain, s.nt1.auth.number, s.nt1.auth.icode or " "), (s.nt2.auth.chain, s.nt2.auth.number, s.nt2.auth.icode or " ")) for s in out]
        problems = []
        if len(set(keys)) != len(keys):
            problems.append("a stacking repeats")
        if any(a == b for a, b in keys):
            problems.append("a stacking joins a residue with itself")
        if any(not (a < b) for a, b in keys):
            problems.append("a stacking does not list the lower residue first")
        if keys != sorted(keys):
            problems.append("stackings are not sorted")
        allowed = {(idents[k][0], idents[k][1], idents[k][2] or " ") for k in range(3) if model_arg is None or models[k] == model_arg}
        if any(a not in allowed or b not in allowed for a, b in keys):
            problems.append("a stacking names a residue outside the analysed model")
        # each geometric pair at most once and exactly when within 6 A (normals parallel, offset along the normal)
        neg = []
        for (i, j), dist in (((0, 1), g1.e), ((1, 2), g2.e), ((0, 2), g1.e + g2.e)):
            pair = tuple(sorted(((idents[i][0], idents[i][1], idents[i][2] or " "), (idents[j][0], idents[j][1], idents[j][2] or " "))))
            listed = pair in keys
            inmodel = pair[0] in allowed and pair[1] in allowed
            if listed:
                neg.append(dist > 6 + F(1, 10 ** 6))
            elif inmodel:
                neg.append(dist < 6 - F(1, 10 ** 6))
        if problems:
            v, m, _ = eng.prove(path, z3.BoolVal(True))
            res["verdicts"].append({"ob": "; ".join(problems), "v": v, "key": "find_stackings:list-shape",
                                    "w": None if m is None else {"perm": list(perm), "model": spec[1],
                                                                 "g1": float(m.eval(g1.e, model_completion=True).as_fraction()),
                                                                 "g2": float(m.eval(g2.e, model_completion=True).as_fraction())}})
        v, m, _ = eng.prove(path, z3.Or(neg + [z3.BoolVal(False)]))
        res["verdicts"].append({"ob": f"stackings {keys} do not match the pairs within 6 A", "v": v, "key": "find_stackings:three-residues",
                                "w": None if m is None else {"perm": list(perm), "model": spec[1],
                                                             "g1": float(m.eval(g1.e, model_completion=True).as_fraction()),
                                                             "g2": float(m.eval(g2.e, model_completion=True).as_fraction())}})
    res.update(queries=eng.nq, solver_s=round(eng.tq, 2), unknown=eng.unknown, wall_s=round(time.time() - t0, 2))
    return res


REPLAY_STACK3 = '''
import numpy
import rnapolis.annotator as A
from rnapolis.tertiary import Atom, Residue3D, Structure3D, BASE_ATOMS
from rnapolis.common import ResidueAuth
w = {w!r}
idents = [("A", 5, None), ("A", 6, None), ("B", 1, None)] if w["model"] != "icode" else [("A", 6, None), ("A", 6, "A"), ("A", 6, "B")]
idents = [idents[k] for k in w["perm"]]
if w["model"] == "icode": w["model"] = None
models = [w["model"], w["model"], w["model"] + 1] if w["model"] is not None else [1, 1, 1]
zs = [0.0, w["g1"], w["g1"] + w["g2"]]
def mk(k):
    auth = ResidueAuth(idents[k][0], idents[k][1], idents[k][2], "G")
    ats = tuple(Atom(None, None, auth, models[k], an, 1.0 * sg, 2.0 * sg, zs[k], 1.0) for an, sg in ((BASE_ATOMS["G"][0], 1), (BASE_ATOMS["G"][-1], -1)))
    r = Residue3D(None, auth, models[k], "G", ats); r.__dict__["base_normal_vector"] = numpy.array([0.0, 0.0, -1.0]); return r
out = A.find_stackings(Structure3D([mk(0), mk(1), mk(2)]), w["model"])
K = lambda t: (t[0], t[1], t[2] or " ")
keys = [(K((s.nt1.auth.chain, s.nt1.auth.number, s.nt1.auth.icode)), K((s.nt2.auth.chain, s.nt2.auth.number, s.nt2.auth.icode))) for s in out]
allowed = {{K(idents[k]) for k in range(3) if w["model"] is None or models[k] == w["model"]}}
want = sorted(tuple(sorted((K(idents[i]), K(idents[j])))) for (i, j), d in (((0, 1), w["g1"]), ((1, 2), w["g2"]), ((0, 2), w["g1"] + w["g2"]))
              if d <= 6 and K(idents[i]) in allowed and K(idents[j]) in allowed)
print(keys, want); sys.exit(1 if keys != want else 0)
'''

REPLAY_LISTS = '''
sys.path.insert(0, {verif!r})
import harness.c11 as C
ok = C.replay_lists({w!r})
sys.exit(0 if ok else 1)
'''


def replay_lists(w):
    """native run with the counterexample's predicate values; True = the list clauses hold"""
    import math
    import numpy
    import rnapolis.annotator as A
    from harness import pairs_logic as PL
    import harness.c03 as C3
    from rnapolis.common import Saenger
    # reuse C03's concrete stubs by running its replay machinery up to the find_pairs call
    spec = PL.load_spec()
    cfg = PL.CONFIGS[w["cfg"]]
    holder = {}
    orig = A.find_pairs

    def spy(structure, model=None):
        holder["out"] = orig(structure, model)
        return holder["out"]
    A.find_pairs = spy
    try:
        C3.replay_logic(w)
    finally:
        A.find_pairs = orig
    bps, bphs, brs = holder["out"]
    cval = {eval(k): v for k, v in w["contacts"].items()}
    tval = {eval(k): v for k, v in w["torsions"].items()}
    ident = [(c, n) for (_, c, n, _) in cfg]
    ok = True
    keys = [((b.nt1.auth.chain, b.nt1.auth.number), (b.nt2.auth.chain, b.nt2.auth.number), b.lw.value) for b in bps]
    if len(set(keys)) != len(keys) or keys != sorted(keys) or any(not (k[0] < k[1]) for k in keys):
        ok = False
    for b in bps:
        letters = {i: cfg[k][0] for k, i in enumerate(ident)}
        want = Saenger.table().get((letters[(b.nt1.auth.chain, b.nt1.auth.number)] + letters[(b.nt2.auth.chain, b.nt2.auth.number)], b.lw.value))
        if (b.saenger.value if b.saenger else None) != want:
            ok = False

    def cls(dres, datom, ares, aatom):
        z = PL.ZIRBEL.get((cfg[dres][0], datom))
        if z is None or not isinstance(z, tuple):
            return z
        _, ck, tk, (n1, n2) = z
        key = ((cfg[dres][1], cfg[dres][2], n1), (cfg[dres][1], cfg[dres][2], n2), (cfg[dres][1], cfg[dres][2], datom), (cfg[ares][1], cfg[ares][2], aatom))
        key = min(key, key[::-1])
        return ck if -90 < tval.get(key, 0.0) < 90 else tk
    for kind, lst, oxy in (("bph", bphs, spec["PHOSPHATE_ACCEPTORS"]), ("br", brs, spec["RIBOSE_ACCEPTORS"])):
        seen = set()
        for it in lst:
            d, a = (it.nt1.auth.chain, it.nt1.auth.number), (it.nt2.auth.chain, it.nt2.auth.number)
            if d == a or (d, a) in seen:
                ok = False
            seen.add((d, a))
            dres, ares = ident.index(d), ident.index(a)
            k = int((it.bph if kind == "bph" else it.br).value[0])
            present = set()
            for key, v in cval.items():
                if not v["near"]:
                    continue
                for x, y in (key, key[::-1]):
                    if x[0] == dres and y[0] == ares and y[1] in oxy and x[1] in spec["BASE_DONORS"].get(cfg[dres][0], []):
                        present.add(cls(dres, x[1], ares, y[1]))
            if not (k in present or (k == 4 and {3, 5} <= present) or (k == 8 and {7, 9} <= present)):
                ok = False
    print("pairs", keys, "bph", [x.bph.value for x in bphs], "br", [x.br.value for x in brs], "clauses hold:", ok)
    return ok


def _dispatch(spec):
    kind, sp = spec
    return {"saenger": job_saenger, "lists": job_lists, "stack3": job_stack3}[kind](sp)


def run(rep, tier):
    from vlib.core import Violation, VERIF
    from vlib.par import pmap, Crashed
    specs = [("saenger", (0, 2)), ("saenger", (3, 9)), ("saenger", (10, 13)), ("saenger", (14, 17)), ("lists", ("bph-G", "fwd")), ("lists", ("bph-C", "fwd")), ("lists", ("bph-G3", "fwd")), ("lists", ("bph-A", "rev")), ("lists", ("br-first", "fwd")), ("lists", ("GC", "fwd")),
             ("lists", ("AU-rev", "rev")), ("lists", ("AG-sugar", "fwd")),
             ("stack3", ((0, 1, 2), None)), ("stack3", ((2, 0, 1), None)), ("stack3", ((1, 0, 2), 1)), ("stack3", ((0, 1, 2), 0)),
             ("stack3", ((1, 0, 2), "icode")), ("stack3", ((2, 1, 0), "icode"))]
    if tier != "quick":
        specs += [("lists", ("bph-G", "rev")), ("lists", ("bph-C", "rev")), ("lists", ("bph-A", "fwd")), ("lists", ("GG-hoog", "fwd")),
                  ("stack3", ((2, 1, 0), None)), ("stack3", ((0, 2, 1), 1)), ("stack3", ((1, 2, 0), None))]
    results = pmap(_dispatch, specs)
    for (kind, sp), r in zip(specs, results):
        if isinstance(r, Crashed):
            rep.harness_error(f"job {sp} crashed: {r.why}")
            continue
        rep.add(states=r["paths"], transitions=max(r["queries"], 1), solver_s=r["solver_s"])
        rep.cov.setdefault("groups", []).append({k: r.get(k) for k in ("name", "paths", "queries", "unknown", "wall_s")})
        if r["reach"]:
            rep.add(reachability_witnesses=1)
        else:
            rep.harness_error(f"{r['name']}: vacuous (nothing reported on any path)")
        for v in r["verdicts"]:
            rep.add(obligations=1)
            if v["v"] == "unsat":
                rep.add(discharged=1)
            elif v["v"] == "sat":
                rep.add(discharged=1)
                w = v.get("w")
                if w is None:
                    rep.harness_error(f"{r['name']}: {v['ob']} (no witness)")
                elif kind == "saenger":
                    rep.violation(Violation(v["key"], f"{v['ob']}: {w}", REPLAY_SAENGER.format(w=w), witness=w))
                elif kind == "lists":
                    rep.violation(Violation(v["key"], f"{r['name']}: {v['ob']}", REPLAY_LISTS.format(verif=VERIF, w=w), witness=w))
                else:
                    rep.violation(Violation(v["key"], f"{r['name']}: {v['ob']}", REPLAY_STACK3.format(w=w), witness=w))
            else:
                rep.add(undecided=1)
        rep.sample({"group": r["name"], "paths": r["paths"], "verdicts": [(v["ob"][:80], v["v"]) for v in r["verdicts"][:2]]}, cap=10)
    rep.add(functions_encoded=["annotator.detect_saenger", "LeontisWesthof.reverse", "Saenger.is_canonical", "annotator.find_pairs (list construction, "
                               "BPh/BR detection, merge_and_clean_bph_br, detect_bph_br_classification)", "annotator.find_stackings (three residues)"],
            bounds={"Saenger": "one-letter names over {A,C,G,U,T,a,N} x 18 classes", "lists": "two residues, 3-5 candidate contacts, every combination of "
                    "in-range / angle / torsion outcomes, KD order forward / reversed", "stackings": "three residues on an axis, gaps 0..8 A, identity "
                    "permutations, model filter", "outside": "whole structures, more residues, JSON / CSV serialisation"},
            engines=["E2 symx + z3"],
            rule="states = explored paths; transitions = solver queries; per path list-shape checks and class obligations",
            stubs=["as in C03 (abstracted geometry)", "KD-tree exact stub and injected normals for the stacking part"])
    rep.assume("Zirbel classes pinned in harness/pairs_logic.py (ZIRBEL) incl. the merge rules 3+5->4 and 7+9->8",
               "partial: two / three residue configurations")
