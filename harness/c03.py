"""C03 — reported base pairs are geometrically justified, edge-exclusive and maximal (E2; partial).

L  logic of the real `find_pairs` on abstracted geometry (harness/pairs_logic.py): the statement verbatim relative to the
   oracle predicates near / angle-in-range / torsion.
K1 contact test of `find_pairs` on real symbolic geometry: one donor and one acceptor atom, injected unit normals, atom
   offset on a frame axis: a contact is accepted <=> distance <= 4.0 and both angles to the normals in (50, 130) degrees.
K2 `detect_cis_trans`: 'c' <=> |torsion(C1', N9/N1, N9/N1, C1')| < 90 degrees, for purine / pyrimidine combinations.
K3 `Residue3D.base_normal_vector`: unit length, orthogonal to both in-plane vectors, right-handed; None iff an atom is missing.
"""
import fractions
import itertools
import math
import sys
import time

PID = "C03"
F = fractions.Fraction


# ---------------------------------------------------------------------------------------------- L
def job_logic(spec):
    cfg_name, order = spec
    sys.path.insert(0, "/verif")
    import z3
    from harness import pairs_logic as PL
    t0 = time.time()
    repeat = order.endswith("+repeat")
    order = order.replace("+repeat", "")
    eng, paths, info = PL.explore(cfg_name, order, repeat=repeat)
    contacts = PL.contacts_of(info)
    cfg = info["cfg"]
    res = {"name": f"logic:{cfg_name}:{order}{'+repeat' if repeat else ''}", "paths": len(paths), "verdicts": [], "reach": 0}
    ident = [(c, n, None) for (_, c, n, _) in cfg]
    lower = 0 if ident[0][:2] < ident[1][:2] else 1      # residue index of the lower residue
    upper = 1 - lower

    def tor_formula(i, j):
        """'c' <=> -90 < torsion < 90 for the glycosidic torsion of residues i, j"""
        def n_of(r):
            return "N9" if cfg[r][0] in "AG" else "N1"
        key = ((cfg[i][1], cfg[i][2], "C1'"), (cfg[i][1], cfg[i][2], n_of(i)), (cfg[j][1], cfg[j][2], n_of(j)), (cfg[j][1], cfg[j][2], "C1'"))
        key = min(key, key[::-1])
        t = info["torsions"].get(key)
        if t is None:
            t = eng.real(f"torsion_late_{len(info['torsions'])}")
            eng.assume(t.e > -180, t.e <= 180, t.e != 90, t.e != -90)
            info["torsions"][key] = t
        return z3.And(t.e > -90, t.e < 90)

    def two_contacts(ei, ej, base_only):
        """>= 2 distinct accepted contacts whose atoms lie on edge ei of the lower residue and ej of the upper residue"""
        cs = []
        for c in contacts:
            el, eu = c["edges"].get(lower), c["edges"].get(upper)
            if el is None or eu is None or ei not in el or ej not in eu:
                continue
            if base_only and ("O2'" in (c["key"][0][1], c["key"][1][1])):
                continue
            cs.append(c["accepted"])
        return z3.Or([z3.And(a, b) for a, b in itertools.combinations(cs, 2)] + [z3.BoolVal(False)])

    def wit(m):
        if m is None:
            return None
        val = {}
        for c in contacts:
            val[str(c["key"])] = {"near": bool(m.eval(c["near"], model_completion=True)), "accepted": bool(m.eval(c["accepted"], model_completion=True))}
        tors = {str(k): float(m.eval(t.e, model_completion=True).as_fraction()) for k, t in info["torsions"].items()}
        kd = 0
        for d in m.decls():
            if d.name().startswith("kdorder"):
                kd = m[d].as_long()
        return {"cfg": cfg_name, "order": order, "contacts": val, "torsions": tors, "kdorder": kd}
    bad_tables = PL.tables_match_spec()
    if bad_tables:
        res["verdicts"].append({"ob": f"donor/acceptor/edge tables differ from the pinned transcript: {bad_tables}", "v": "sat", "key": "find_pairs:tables",
                                "w": {"cfg": cfg_name, "tables": bad_tables}})
    for path, out in paths:
        if isinstance(out, PL.RepeatMismatch):
            v, m, _ = eng.prove(path, z3.BoolVal(True))
            w_ = wit(m)
            if w_ is not None:
                w_["repeat"] = True
            res["verdicts"].append({"ob": f"the same structure annotated twice in one process gives {[b.lw.value for b in out.args[0][0]]} then "
                                    f"{[b.lw.value for b in out.args[1][0]]}", "v": v, "key": "find_pairs:repeat", "w": w_})
            continue
        if isinstance(out, Exception):
            v, m, _ = eng.prove(path, z3.BoolVal(True))
            res["verdicts"].append({"ob": f"find_pairs raised {type(out).__name__}: {out}", "v": v, "key": "find_pairs:exception", "w": wit(m)})
            continue
        bps = out[0]
        res["reach"] += 1 if bps else 0
        neg = []
        occupied = []
        for bp in bps:
            a1 = (bp.nt1.auth.chain, bp.nt1.auth.number)
            a2 = (bp.nt2.auth.chain, bp.nt2.auth.number)
            if a1 == a2 or a1 != ident[lower][:2] or a2 != ident[upper][:2]:
                neg.append(z3.BoolVal(True))
                continue
            ct, ei, ej = bp.lw.value[0], bp.lw.value[1], bp.lw.value[2]
            neg.append(z3.Not(two_contacts(ei, ej, base_only=False)))                   # justified by >= 2 contacts on the named edges
            cis = tor_formula(lower, upper)
            neg.append(z3.Not(cis) if ct == "c" else cis)                               # cis/trans letter matches the torsion
            if (lower, ei) in occupied or (upper, ej) in occupied:
                neg.append(z3.BoolVal(True))                                            # an edge used twice
            occupied += [(lower, ei), (upper, ej)]
        v, m, _ = eng.prove(path, z3.Or(neg + [z3.BoolVal(False)]))
        key = "find_pairs:soundness"
        if v == "sat":
            # is it exactly the recorded finding (one O2' contact counted as two hydrogen bonds, O2' being listed both as ribose acceptor and as
            # base donor)?  re-ask with the lenient reading in which a single accepted O2' contact on the edges justifies the pair
            neg2 = []
            occ2 = []
            for bp in bps:
                ct, ei, ej = bp.lw.value[0], bp.lw.value[1], bp.lw.value[2]
                o2 = [c["accepted"] for c in contacts if "O2'" in (c["key"][0][1], c["key"][1][1]) and c["edges"].get(lower) and c["edges"].get(upper)
                      and ei in c["edges"][lower] and ej in c["edges"][upper]]
                neg2.append(z3.Not(z3.Or([two_contacts(ei, ej, base_only=False)] + o2)))
                cis = tor_formula(lower, upper)
                neg2.append(z3.Not(cis) if ct == "c" else cis)
                if (lower, ei) in occ2 or (upper, ej) in occ2:
                    neg2.append(z3.BoolVal(True))
                occ2 += [(lower, ei), (upper, ej)]
            v2, _, _ = eng.prove(path, z3.Or(neg2 + [z3.BoolVal(False)]))
            if v2 == "unsat":
                key = "find_pairs:soundness:single-O2prime-contact-counted-twice"
        res["verdicts"].append({"ob": f"a reported pair {[b.lw.value for b in bps]} is not justified (two contacts on its edges, cis/trans, edge used once)",
                                "v": v, "key": key, "w": wit(m)})
        # completeness
        neg = []
        reported = {b.lw.value for b in bps}
        for ei, ej in itertools.product("WHS", repeat=2):
            if (lower, ei) in occupied or (upper, ej) in occupied:
                continue
            cnt = two_contacts(ei, ej, base_only=True)
            cis = tor_formula(lower, upper)
            # neither class reported and both edges free: two base-to-base contacts on this combination must be impossible
            neg.append(cnt)
        v, m, _ = eng.prove(path, z3.Or(neg + [z3.BoolVal(False)]))
        res["verdicts"].append({"ob": f"two base-to-base contacts on a free edge combination exist but no pair is reported (reported: {sorted(reported)})",
                                "v": v, "key": "find_pairs:completeness", "w": wit(m)})
    res.update(queries=eng.nq, solver_s=round(eng.tq, 2), unknown=eng.unknown, wall_s=round(time.time() - t0, 2))
    return res


REPLAY_LOGIC = '''
sys.path.insert(0, {verif!r})
import numpy, itertools
import rnapolis.annotator as A
from harness import pairs_logic as PL
from rnapolis.tertiary import Atom, Residue3D, Structure3D
from rnapolis.common import ResidueAuth
w = {w!r}; key = {key!r}
if key.endswith("tables"):
    print("tables differ from the pinned transcript:", PL.tables_match_spec()); sys.exit(1 if PL.tables_match_spec() else 0)
# rebuild the abstract geometry as concrete stubs and run the real find_pairs
cfg = PL.CONFIGS[w["cfg"]]
import harness.c03 as C
ok = C.replay_logic(w)
sys.exit(0 if ok else 1)
'''


def replay_logic(w, history=False):
    """native run of find_pairs with the counterexample's predicate values as stubs; True = statement holds"""
    import numpy
    import rnapolis.annotator as A
    from harness import pairs_logic as PL
    from rnapolis.tertiary import Atom, Residue3D, Structure3D
    from rnapolis.common import ResidueAuth
    spec = PL.load_spec()
    cfg = PL.CONFIGS[w["cfg"]]
    residues, atom_of_xyz = [], {}
    k = 0
    for ri, (letter, chain, num, names) in enumerate(cfg):
        auth = ResidueAuth(chain, num, None, letter)
        ats = []
        for an in names:
            p = PL.PRIMES[k]
            xyz = (round(p * 1.01 + 20 * ri, 4), round(p * p * 0.013, 4), round(p * p * p * 0.0007, 4))
            k += 1
            ats.append(Atom(None, None, auth, 1, an, xyz[0], xyz[1], xyz[2], 1.0))
            atom_of_xyz[xyz] = (ri, an)
        r = Residue3D(None, auth, 1, letter, tuple(ats))
        r.__dict__["base_normal_vector"] = numpy.array([0.0, 0.0, 1.0])
        residues.append(r)
    all_atoms = [(ri, a) for ri, r in enumerate(residues) for a in r.atoms]
    vecmap = {}
    for (ri, a), (rj, b) in itertools.permutations(all_atoms, 2):
        vecmap[tuple(numpy.round(a.coordinates - b.coordinates, 6))] = ((ri, a.name), (rj, b.name))
    cval = {eval(kk): vv for kk, vv in w["contacts"].items()}
    tval = {eval(kk): vv for kk, vv in w["torsions"].items()}

    def kind_of(a):
        letter = cfg[a[0]][0]
        acc = spec["BASE_ACCEPTORS"].get(letter, []) + spec["RIBOSE_ACCEPTORS"] + spec["PHOSPHATE_ACCEPTORS"]
        return "acceptor" if a[1] in acc else ("donor" if a[1] in spec["BASE_DONORS"].get(letter, []) else "none")

    class KD:
        def __init__(self, pts):
            self.pts = [tuple(p) for p in pts]

        def query_pairs(self, r):
            out = []
            for i in range(len(self.pts)):
                for j in range(i + 1, len(self.pts)):
                    a, b = atom_of_xyz[self.pts[i]], atom_of_xyz[self.pts[j]]
                    if w["cfg"] in PL.ONLY and a[0] != b[0] and kind_of(a) != kind_of(b) and (a[1], b[1]) not in PL.ONLY[w["cfg"]] \
                            and (b[1], a[1]) not in PL.ONLY[w["cfg"]]:
                        continue
                    if a[0] == b[0] or kind_of(a) == kind_of(b) or cval.get(tuple(sorted((a, b))), {}).get("near"):
                        out.append((i, j))
            if w["order"] == "sym":
                cross = [p for p in out if atom_of_xyz[self.pts[p[0]]][0] != atom_of_xyz[self.pts[p[1]]][0]
                         and kind_of(atom_of_xyz[self.pts[p[0]]]) != kind_of(atom_of_xyz[self.pts[p[1]]])]
                rest = [p for p in out if p not in cross]
                perms = list(itertools.permutations(range(len(cross))))
                return rest + [cross[i] for i in perms[w.get("kdorder", 0) % len(perms)]]
            return out if w["order"] == "fwd" else list(reversed(out))

    def fake_angle(v1, v2):
        a, b = vecmap[tuple(numpy.round(v2, 6))]
        acc = cval.get(tuple(sorted((a, b))), {}).get("accepted")
        return math.radians(90.0 if acc else 10.0)

    def fake_torsion(a1, a2, a3, a4):
        key = tuple((x.auth.chain, x.auth.number, x.name) for x in (a1, a2, a3, a4))
        key = min(key, key[::-1])
        t = tval.get(key, 0.0)
        if flip["on"]:
            t = t - 180.0 if t > 0 else t + 180.0      # the other cis/trans class
        return math.radians(t)
    flip = {"on": False}
    if not history and not w.get("_forked"):
        # the symbolic exploration runs many structures in one process: a failure may need an earlier call (state kept between calls).
        # The witness is evaluated alone and after a call on the same residues with every torsion in the other class, each in a forked
        # copy of this fresh interpreter.
        import os

        def forked(h):
            pid = os.fork()
            if pid == 0:
                try:
                    os._exit(0 if replay_logic(dict(w, _forked=True), history=h) else 1)
                except BaseException:  # noqa: BLE001
                    os._exit(2)
            return os.waitpid(pid, 0)[1] >> 8
        r = forked(False)
        if r == 2:
            raise RuntimeError("replay crashed")
        if r == 1:
            return False
        r = forked(True)
        if r == 1:
            print("(after an earlier call in the same process on the same residues with the other torsion class)")
        return r != 1
    saved = (A.KDTree, A.angle_between_vectors, A.torsion_angle)
    A.KDTree, A.angle_between_vectors, A.torsion_angle = KD, fake_angle, fake_torsion
    try:
        if history:
            flip["on"] = True
            earlier = []
            for r0 in residues:
                r1 = Residue3D(None, r0.auth, 1, r0.one_letter_name, r0.atoms)
                r1.__dict__["base_normal_vector"] = numpy.array([0.0, 0.0, 1.0])
                earlier.append(r1)
            A.find_pairs(Structure3D(earlier))
            flip["on"] = False
        bps, _, _ = A.find_pairs(Structure3D(residues))
        if w.get("repeat"):
            again, _, _ = A.find_pairs(Structure3D(residues))
            if [repr(x) for x in again] != [repr(x) for x in bps]:
                print("first call", [b.lw.value for b in bps], "second call", [b.lw.value for b in again])
                return False
    finally:
        A.KDTree, A.angle_between_vectors, A.torsion_angle = saved
    # concrete oracle
    ident = [(c, n) for (_, c, n, _) in cfg]
    lower = 0 if ident[0] < ident[1] else 1
    upper = 1 - lower

    def edges(a):
        return spec["BASE_EDGES"].get(cfg[a[0]][0], {}).get(a[1])

    def count(ei, ej, base_only):
        n = 0
        for key, v in cval.items():
            if not v["accepted"]:
                continue
            al = key[0] if key[0][0] == lower else key[1]
            au = key[1] if key[0][0] == lower else key[0]
            if edges(al) and edges(au) and ei in edges(al) and ej in edges(au) and not (base_only and "O2'" in (al[1], au[1])):
                n += 1
        return n

    def n_of(r):
        return "N9" if cfg[r][0] in "AG" else "N1"
    tkey = ((cfg[lower][1], cfg[lower][2], "C1'"), (cfg[lower][1], cfg[lower][2], n_of(lower)), (cfg[upper][1], cfg[upper][2], n_of(upper)),
            (cfg[upper][1], cfg[upper][2], "C1'"))
    tkey = min(tkey, tkey[::-1])
    cis = -90 < tval.get(tkey, 0.0) < 90
    ok = True
    occ = []
    for bp in bps:
        ct, ei, ej = bp.lw.value
        if count(ei, ej, False) < 2 or (ct == "c") != cis or (lower, ei) in occ or (upper, ej) in occ:
            ok = False
        occ += [(lower, ei), (upper, ej)]
    for ei, ej in itertools.product("WHS", repeat=2):
        if (lower, ei) not in occ and (upper, ej) not in occ and count(ei, ej, True) >= 2:
            ok = False
    print("reported", [b.lw.value for b in bps], "cis" if cis else "trans", "statement holds:", ok)
    return ok


# ---------------------------------------------------------------------------------------------- K1
def job_contact(spec):
    """real contact test inside find_pairs: G:N1 (donor) ... C:N3 (acceptor), unit normals free, offset d on an axis"""
    axis, swap = spec
    sys.path.insert(0, "/verif")
    import z3
    from symx.engine import Engine
    from symx.shims import MathShim, arr
    import rnapolis.annotator as A
    from rnapolis.tertiary import Atom, Residue3D, Structure3D
    from rnapolis.common import ResidueAuth
    from harness.c04 import KD
    eng = Engine(timeout_ms=10000, obligation_timeout_ms=120000)
    d = eng.real("d")
    eng.assume(d.e > 0, d.e <= 7)
    n1 = [eng.real(f"n1{c}") for c in "xyz"]
    n2 = [eng.real(f"n2{c}") for c in "xyz"]
    eng.assume(sum((c.e * c.e for c in n1), z3.RealVal(0)) == 1, sum((c.e * c.e for c in n2), z3.RealVal(0)) == 1)
    o = [eng.real(f"o{c}") for c in "xyz"]
    A.KDTree = KD
    A.math = MathShim()
    captured = {}

    def prof(frame, event, arg):
        if event == "return" and frame.f_code.co_name == "find_pairs":
            captured["hb"] = list(frame.f_locals.get("hydrogen_bonds", []))

    def run():
        p1 = [o[0] * 1, o[1] * 1, o[2] * 1]
        p2 = [o[0] * 1, o[1] * 1, o[2] * 1]
        p2[axis] = p2[axis] + d
        a1, a2 = ResidueAuth("A", 1, None, "G"), ResidueAuth("A", 2, None, "C")
        r1 = Residue3D(None, a1, 1, "G", (Atom(None, None, a1, 1, "N1", p1[0], p1[1], p1[2], 1.0),))
        r2 = Residue3D(None, a2, 1, "C", (Atom(None, None, a2, 1, "N3", p2[0], p2[1], p2[2], 1.0),))
        r1.__dict__["base_normal_vector"] = arr(*n1)
        r2.__dict__["base_normal_vector"] = arr(*n2)
        captured.clear()
        sys.setprofile(prof)
        try:
            A.find_pairs(Structure3D([r2, r1] if swap else [r1, r2]))
        finally:
            sys.setprofile(None)
        return len(captured.get("hb", []))
    t0 = time.time()
    paths = eng.explore(run)
    res = {"name": f"contact:axis{axis}:swap{swap}", "paths": len(paths), "verdicts": [], "reach": 0}
    DEL = 1e-6
    c50 = [F(math.cos(math.radians(50) + s)) for s in (-DEL, DEL)]     # cos(50-d) > cos(50+d)
    # angle between normal and the bond vector in (50,130)  <=>  |cos| < cos 50 ; the vector is +-d*e_axis, so cos = +-n[axis]
    def absn(n):
        return z3.If(n[axis].e >= 0, n[axis].e, -n[axis].e)
    inside = z3.And(d.e < 4 - F(DEL), absn(n1) < c50[1], absn(n2) < c50[1])
    outside = z3.Or(d.e > 4 + F(DEL), absn(n1) > c50[0], absn(n2) > c50[0])

    def wit(m):
        if m is None:
            return None

        def val(e):
            r = m.eval(e, model_completion=True)
            return float(r.as_fraction()) if z3.is_rational_value(r) else float(r.approx(15).as_fraction())
        return {"axis": axis, "swap": swap, "d": val(d.e), "n1": [val(c.e) for c in n1], "n2": [val(c.e) for c in n2], "o": [val(c.e) for c in o]}
    for path, out in paths:
        if isinstance(out, Exception):
            v, m, _ = eng.prove(path, z3.BoolVal(True))
            res["verdicts"].append({"ob": f"find_pairs raised {type(out).__name__}: {out}", "v": v, "key": "find_pairs:exception", "w": wit(m)})
            continue
        if out:
            res["reach"] += 1
        v, m, _ = eng.prove(path, outside if out else inside, race=True)
        res["verdicts"].append({"ob": ("contact accepted although outside" if out else "contact rejected although inside") +
                                " distance <= 4.0 and both angles in (50,130) by margin", "v": v, "key": "find_pairs:contact-test", "w": wit(m), "accepted": bool(out)})
    res.update(queries=eng.nq, solver_s=round(eng.tq, 2), unknown=eng.unknown, wall_s=round(time.time() - t0, 2))
    return res


REPLAY_CONTACT = '''
import numpy, math
import rnapolis.annotator as A
from rnapolis.tertiary import Atom, Residue3D, Structure3D
from rnapolis.common import ResidueAuth
w = {w!r}; accepted = {accepted!r}
p1 = list(w["o"]); p2 = list(w["o"]); p2[w["axis"]] += w["d"]
a1, a2 = ResidueAuth("A", 1, None, "G"), ResidueAuth("A", 2, None, "C")
r1 = Residue3D(None, a1, 1, "G", (Atom(None, None, a1, 1, "N1", *p1, 1.0),)); r2 = Residue3D(None, a2, 1, "C", (Atom(None, None, a2, 1, "N3", *p2, 1.0),))
r1.__dict__["base_normal_vector"] = numpy.array(w["n1"]); r2.__dict__["base_normal_vector"] = numpy.array(w["n2"])
cap = {{}}
def prof(frame, event, arg):
    if event == "return" and frame.f_code.co_name == "find_pairs": cap["hb"] = list(frame.f_locals.get("hydrogen_bonds", []))
sys.setprofile(prof); A.find_pairs(Structure3D([r2, r1] if w["swap"] else [r1, r2])); sys.setprofile(None)
n = len(cap.get("hb", []))
def ang(nv): return math.degrees(math.acos(max(-1, min(1, nv[w["axis"]] / math.sqrt(sum(c * c for c in nv))))))
inside = w["d"] <= 4.0 and 50 < ang(w["n1"]) < 130 and 50 < ang(w["n2"]) < 130
print("d", w["d"], "angles", ang(w["n1"]), ang(w["n2"]), "definition", inside, "accepted", n)
sys.exit(1 if (n > 0) != inside else 0)
'''


# ---------------------------------------------------------------------------------------------- K2 / K3
def job_cistrans(spec):
    li, lj = spec
    sys.path.insert(0, "/verif")
    import z3
    from symx.engine import Engine
    from symx.shims import MathShim
    import rnapolis.annotator as A
    import rnapolis.tertiary as T
    from rnapolis.tertiary import Atom, Residue3D
    from rnapolis.common import ResidueAuth
    from harness.c18 import setup
    eng = Engine(timeout_ms=8000, obligation_timeout_ms=240000)
    A.math = MathShim()
    T.math = MathShim()
    (a, b, l, x, y, z), P = setup(eng, "xyz", offset=False)
    ni = "N9" if li in "AG" else "N1"
    nj = "N9" if lj in "AG" else "N1"
    a1, a2 = ResidueAuth("A", 1, None, li), ResidueAuth("A", 2, None, lj)
    # decoy atoms with the *other* glycosidic name must not be used
    r1 = Residue3D(None, a1, 1, li, (Atom(None, None, a1, 1, "C1'", P[0][0], P[0][1], P[0][2], 1.0), Atom(None, None, a1, 1, ni, P[1][0], P[1][1], P[1][2], 1.0),
                                      Atom(None, None, a1, 1, "N1" if ni == "N9" else "N9", P[1][0] + 3, P[1][1] - 2, P[1][2] + 1, 1.0)))
    r2 = Residue3D(None, a2, 1, lj, (Atom(None, None, a2, 1, nj, P[2][0], P[2][1], P[2][2], 1.0), Atom(None, None, a2, 1, "C1'", P[3][0], P[3][1], P[3][2], 1.0),
                                      Atom(None, None, a2, 1, "N1" if nj == "N9" else "N9", P[2][0] - 3, P[2][1] + 2, P[2][2] + 1, 1.0)))
    t0 = time.time()
    paths = eng.explore(lambda: A.detect_cis_trans(r1, r2))
    res = {"name": f"cis-trans:{li}{lj}", "paths": len(paths), "verdicts": [], "reach": 0}
    DEL = 1e-6
    # phi = polar angle of (x, y); |phi| < 90 degrees  <=>  x > 0 ; margin through the direction at 90 +- delta
    s = F(math.sin(DEL))
    for path, out in paths:
        if isinstance(out, Exception) or out not in ("c", "t"):
            v, m, _ = eng.prove(path, z3.BoolVal(True), race=True)
            res["verdicts"].append({"ob": f"detect_cis_trans returned {out!r} on non-degenerate input", "v": v, "key": "detect_cis_trans:value", "w": None})
            continue
        res["reach"] += 1
        # cis reported while |phi| > 90 + delta  (x < -|y| tan(delta) ~ x < -s*|y|) ; trans reported while |phi| < 90 - delta
        absy = z3.If(y.e >= 0, y.e, -y.e)
        neg = (x.e < -s * absy) if out == "c" else (x.e > s * absy)
        v, m, _ = eng.prove(path, neg, race=True)
        w = None
        if m is not None:
            def val(e):
                r = m.eval(e, model_completion=True)
                return float(r.as_fraction()) if z3.is_rational_value(r) else float(r.approx(15).as_fraction())
            w = {"li": li, "lj": lj, "a": val(a.e), "b": val(b.e), "l": val(l.e), "x": val(x.e), "y": val(y.e), "z": val(z.e), "got": out}
        res["verdicts"].append({"ob": f"'{out}' reported although the C1'-N...N-C1' torsion is on the other side of +-90 degrees", "v": v,
                                "key": "detect_cis_trans:threshold", "w": w})
    res.update(queries=eng.nq, solver_s=round(eng.tq, 2), unknown=eng.unknown, wall_s=round(time.time() - t0, 2))
    return res


REPLAY_CT = '''
import math
import rnapolis.annotator as A
from rnapolis.tertiary import Atom, Residue3D
from rnapolis.common import ResidueAuth
w = {w!r}
P = [(w["a"], 0.0, w["b"]), (0.0, 0.0, 0.0), (0.0, 0.0, w["l"]), (w["x"], w["y"], w["z"] + w["l"])]
ni = "N9" if w["li"] in "AG" else "N1"; nj = "N9" if w["lj"] in "AG" else "N1"
a1, a2 = ResidueAuth("A", 1, None, w["li"]), ResidueAuth("A", 2, None, w["lj"])
r1 = Residue3D(None, a1, 1, w["li"], (Atom(None, None, a1, 1, "C1'", *P[0], 1.0), Atom(None, None, a1, 1, ni, *P[1], 1.0), Atom(None, None, a1, 1, "N1" if ni == "N9" else "N9", P[1][0] + 3, P[1][1] - 2, P[1][2] + 1, 1.0)))
r2 = Residue3D(None, a2, 1, w["lj"], (Atom(None, None, a2, 1, nj, *P[2], 1.0), Atom(None, None, a2, 1, "C1'", *P[3], 1.0), Atom(None, None, a2, 1, "N1" if nj == "N9" else "N9", P[2][0] - 3, P[2][1] + 2, P[2][2] + 1, 1.0)))
got = A.detect_cis_trans(r1, r2); phi = math.degrees(math.atan2(w["y"], w["x"]))
print("dihedral", phi, "reported", got)
sys.exit(1 if (got == "c") != (abs(phi) < 90) else 0)
'''


def job_normal(spec):
    letter, missing = spec
    sys.path.insert(0, "/verif")
    import z3
    from symx.engine import Engine
    from symx.shims import MathShim
    import rnapolis.tertiary as T
    from rnapolis.tertiary import Atom, Residue3D
    from rnapolis.common import ResidueAuth
    eng = Engine(timeout_ms=10000, obligation_timeout_ms=120000)
    names = ("N9", "N7", "N3") if letter in "AG" else ("N1", "C4", "O2")
    # frame: first atom at the origin (+offset), second on the x axis, third in the xy plane
    p, q, r_ = eng.real("p"), eng.real("q"), eng.real("r")
    o = [eng.real(f"o{c}") for c in "xyz"]
    eng.assume(p.e >= F(1, 2), p.e <= 4, r_.e >= F(1, 2), r_.e <= 4, q.e >= -4, q.e <= 4)
    pts = [(o[0] * 1, o[1] * 1, o[2] * 1), (o[0] + p, o[1] * 1, o[2] * 1), (o[0] + q, o[1] + r_, o[2] * 1)]
    auth = ResidueAuth("A", 1, None, letter)
    ats = [Atom(None, None, auth, 1, nm, pt[0], pt[1], pt[2], 1.0) for nm, pt in zip(names, pts) if nm != missing]
    ats.append(Atom(None, None, auth, 1, "C1'", 9.0, 9.0, 9.0, 1.0))
    res_ = Residue3D(None, auth, 1, letter, tuple(ats))
    t0 = time.time()

    def run():
        res_.__dict__.pop("base_normal_vector", None)
        return res_.base_normal_vector
    paths = eng.explore(run)
    res = {"name": f"normal:{letter}:missing-{missing}", "paths": len(paths), "verdicts": [], "reach": 0}
    for path, out in paths:
        if isinstance(out, Exception):
            v, m, _ = eng.prove(path, z3.BoolVal(True))
            res["verdicts"].append({"ob": f"base_normal_vector raised {type(out).__name__}: {out}", "v": v, "key": "base_normal_vector:exception", "w": None})
            continue
        res["reach"] += 1
        if missing is not None:
            ok = out is None
            res["verdicts"].append({"ob": f"an in-plane atom ({missing}) is missing but the normal is {out!r}", "v": "unsat" if ok else "sat",
                                    "key": "base_normal_vector:missing", "w": None if ok else {"letter": letter, "missing": missing}})
            continue
        if out is None:
            v, m, _ = eng.prove(path, z3.BoolVal(True))
            res["verdicts"].append({"ob": "normal is None although all three atoms are present", "v": v, "key": "base_normal_vector:missing",
                                    "w": {"letter": letter, "missing": None}})
            continue
        nx, ny, nz = [c.e if hasattr(c, "e") else z3.RealVal(F(float(c))) for c in out]
        # v1 = (p,0,0), v2 = (q,r,0), r > 0: the right-handed unit normal is (0,0,1)
        neg = z3.Or(nx != 0, ny != 0, nz != 1)
        v, m, _ = eng.prove(path, neg, race=True)
        res["verdicts"].append({"ob": "normal is not the right-handed unit vector orthogonal to both in-plane vectors", "v": v,
                                "key": "base_normal_vector:value", "w": None if m is None else {"letter": letter, "missing": None,
                                "p": float(m.eval(p.e, model_completion=True).as_fraction()), "q": float(m.eval(q.e, model_completion=True).as_fraction()),
                                "r": float(m.eval(r_.e, model_completion=True).as_fraction())}})
    res.update(queries=eng.nq, solver_s=round(eng.tq, 2), unknown=eng.unknown, wall_s=round(time.time() - t0, 2))
    return res


REPLAY_NORMAL = '''
import numpy
from rnapolis.tertiary import Atom, Residue3D
from rnapolis.common import ResidueAuth
w = {w!r}
names = ("N9", "N7", "N3") if w["letter"] in "AG" else ("N1", "C4", "O2")
p, q, r = w.get("p", 1.0), w.get("q", 0.5), w.get("r", 1.0)
pts = [(1.0, 2.0, 3.0), (1.0 + p, 2.0, 3.0), (1.0 + q, 2.0 + r, 3.0)]
auth = ResidueAuth("A", 1, None, w["letter"])
ats = [Atom(None, None, auth, 1, nm, *pt, 1.0) for nm, pt in zip(names, pts) if nm != w["missing"]]
n = Residue3D(None, auth, 1, w["letter"], tuple(ats)).base_normal_vector
print("normal", n)
if w["missing"] is not None: sys.exit(1 if n is not None else 0)
sys.exit(1 if (n is None or numpy.abs(numpy.array(n) - numpy.array([0, 0, 1.0])).max() > 1e-9) else 0)
'''


def _dispatch(spec):
    kind, sp = spec
    return {"logic": job_logic, "contact": job_contact, "cistrans": job_cistrans, "normal": job_normal}[kind](sp)


def run(rep, tier):
    from vlib.core import Violation, VERIF
    from vlib.par import pmap, Crashed
    specs = [("logic", ("GC", "fwd")), ("logic", ("AU-rev", "fwd")), ("logic", ("AG-sugar", "fwd")), ("logic", ("GC", "rev+repeat")), ("logic", ("GU-mixed", "sym")), ("logic", ("GG-hoog", "fwd")), ("logic", ("GA-sugar3", "fwd")),
             ("contact", (2, False)), ("contact", (0, True)), ("cistrans", ("G", "C")), ("cistrans", ("U", "A")),
             ("normal", ("G", None)), ("normal", ("C", None)), ("normal", ("A", "N7")), ("normal", ("U", "O2"))]
    if tier != "quick":
        specs += [("logic", ("GG-hoog", "rev")), ("logic", ("AU-rev", "rev")), ("logic", ("AG-sugar", "rev")), ("contact", (1, False)),
                  ("cistrans", ("A", "G")), ("cistrans", ("C", "U")), ("normal", ("A", None)), ("normal", ("U", None)), ("normal", ("T", None)),
                  ("normal", ("G", "N9")), ("normal", ("C", "C4"))]
    results = pmap(_dispatch, specs)
    for (kind, sp), r in zip(specs, results):
        if isinstance(r, Crashed):
            rep.harness_error(f"job {sp} crashed: {r.why}")
            continue
        rep.add(states=r["paths"], transitions=max(r["queries"], 1), solver_s=r["solver_s"])
        rep.cov.setdefault("groups", []).append({k: r.get(k) for k in ("name", "paths", "queries", "unknown", "wall_s")})
        if r["reach"]:
            rep.add(reachability_witnesses=1)
        else:
            rep.harness_error(f"{r['name']}: vacuous (no pair / contact / value reached)")
        for v in r["verdicts"]:
            rep.add(obligations=1)
            if v["v"] == "unsat":
                rep.add(discharged=1)
            elif v["v"] == "sat":
                rep.add(discharged=1)
                w = v.get("w")
                if w is None:
                    rep.harness_error(f"{r['name']}: {v['ob']} (no witness)")
                elif kind == "logic":
                    rep.violation(Violation(v["key"], f"{r['name']}: {v['ob']}", REPLAY_LOGIC.format(verif=VERIF, w=w, key=v["key"]), witness=w))
                elif kind == "contact":
                    rep.violation(Violation(v["key"], f"{r['name']}: {v['ob']}", REPLAY_CONTACT.format(w=w, accepted=v.get("accepted")), witness=w))
                elif kind == "cistrans":
                    rep.violation(Violation(v["key"], f"{r['name']}: {v['ob']}", REPLAY_CT.format(w=w), witness=w))
                else:
                    rep.violation(Violation(v["key"], f"{r['name']}: {v['ob']}", REPLAY_NORMAL.format(w=w), witness=w))
            else:
                rep.add(undecided=1)
                rep.notes.append(f"{r['name']}: {v['ob']}: {v['v']}")
        rep.sample({"group": r["name"], "paths": r["paths"], "verdicts": [(v["ob"][:80], v["v"]) for v in r["verdicts"][:2]]}, cap=10)
    rep.add(functions_encoded=["annotator.find_pairs", "annotator.detect_cis_trans", "annotator.angle_between_vectors", "Residue3D.base_normal_vector",
                               "tertiary.torsion_angle (through detect_cis_trans)"],
            bounds={"logic": "two residues with 3 donor/acceptor atoms each (+ C1', N9/N1): every combination of in-range / angle-ok / cis-trans values for "
                    "the 4-6 candidate contacts; KD result order forward and reversed", "contact kernel": "one donor and one acceptor atom, unit normals "
                    "free, offset 0..7 A on a frame axis", "cis/trans kernel": "torsion geometry of C18 (canonical frame)", "normal kernel": "three "
                    "in-plane atoms in a fixed frame (3 free reals + translation)",
                    "outside": "residues with realistic atom counts, more than two residues, interplay with the real KD-tree, general rotations"},
            engines=["E2 symx (booleans / reals) + z3; NRA obligations raced on two z3 builds"],
            rule="states = explored paths; transitions = solver queries; per path a soundness and a completeness obligation (logic), margin-form "
                 "obligations (kernels)",
            stubs=["KD-tree: exact stub (kernels) / free boolean per candidate pair (logic)", "angle_between_vectors, torsion_angle: free values (logic)",
                   "base_normal_vector injected (contact kernel)", "hydrogen_bonds read from find_pairs' frame at return (sys.setprofile)"])
    rep.assume("distinct atoms have distinct coordinates (the reader's 0.5 A filter guarantees it; the coordinate-keyed maps collide otherwise)",
               "contacts through O2' count as support but are not demanded by completeness", "partial: kernels + two-residue logic, not whole structures")
