"""C16 — the all-dot-brackets list is exactly the set of greedy-stable (Grundy) assignments.

Outer: CrossHair explores every pairing (the real `all_dot_brackets` is executed traced).
Inner, per path, z3 decides over level variables a_s in [0,R):
  spec(a) := proper(a) and for every stem s and level l < a_s some stem crossing s has a_t = l
  * every member of the real list satisfies spec                     (evaluated under the model)
  * completeness:  unsat( spec(a) and a differs from every member )  -- the deciding verdict
  * no repetition; optimal and FCFS notations are members; knot-free => single round string
"""
import itertools

from harness.pairing_lib import *
from harness.c02 import inflate, knotted, n_arcs  # noqa: F401  (used in generated preconditions)

PID = "C16"


def spec_formula(z3, ctx, a, stems):
    R = len(stems)
    edges = set(conflict_edges(stems))
    nb = {i: [j for j in range(R) if (min(i, j), max(i, j)) in edges and i != j] for i in range(R)}
    cons = []
    for i in range(R):
        cons.append(a[i] >= 0)
        cons.append(a[i] < max(R, 1))
    for i, j in edges:
        cons.append(a[i] != a[j])
    for i in range(R):
        for l in range(R):
            # l < a_i  =>  some crossing stem sits on l
            cons.append(z3.Implies(a[i] > l, z3.Or([a[j] == l for j in nb[i]] + [z3.BoolVal(False, ctx)])))
    return cons


def check_list(pc, members, opt, fcfs, problems, stats):
    import z3
    import time
    stems = stems_of(pairs_of(pc))
    R = len(stems)
    n = len(pc)
    if len(set(members)) != len(members):
        problems.append((f"list repeats a notation: {sorted(members)}", "repetition"))
    lvs = []
    for s in members:
        sl = levels_by_stem(pc, s)
        if sl is None or set(decode(s)) != pairs_of(pc) or len(s) != n:
            problems.append((f"member {s!r} is not a stem-uniform notation of the structure", "member-lossless"))
            return
        lvs.append(sl[1])
    ctx = z3.Context()
    a = [z3.Int(f"a{i}", ctx) for i in range(R)]
    spec = spec_formula(z3, ctx, a, stems)
    s = z3.Solver(ctx=ctx)
    s.add(spec)
    t0 = time.time()
    # soundness of every member: spec under the member's assignment must be sat
    for m, lv in zip(members, lvs):
        s.push()
        s.add([a[i] == lv[i] for i in range(R)])
        r = s.check()
        stats["queries"] += 1
        s.pop()
        if r == z3.unsat:
            problems.append((f"member {m!r} (levels {lv}) is not a greedy-stable proper assignment", "member-spec"))
        elif r != z3.sat:
            stats["unknown"] += 1
    # completeness: no greedy-stable assignment outside the list
    s.push()
    for lv in lvs:
        s.add(z3.Or([a[i] != lv[i] for i in range(R)] + [z3.BoolVal(False, ctx)]))
    r = s.check()
    stats["queries"] += 1
    if r == z3.sat:
        mdl = s.model()
        miss = [mdl.eval(x, model_completion=True).as_long() for x in a]
        problems.append((f"greedy-stable assignment {render(n, stems, miss)!r} is missing from the list {sorted(members)}", "complete"))
    elif r != z3.unsat:
        stats["unknown"] += 1
    s.pop()
    stats["solver_s"] += time.time() - t0
    if opt is not None and opt not in members:
        problems.append((f"optimal notation {opt!r} is not in the list {sorted(members)}", "optimal-member"))
    if fcfs not in members:
        problems.append((f"FCFS notation {fcfs!r} is not in the list {sorted(members)}", "fcfs-member"))
    if not conflict_edges(stems):
        want = render(n, stems, [0] * R)
        if list(members) != [want]:
            problems.append((f"pseudoknot-free structure: list {members} != [{want!r}]", "knotfree"))


def body(p, ident=None):
    from harness.e1_common import realize, deep_realize, NoTracing, log, known_keys
    from rnapolis.common import BpSeq, Entry
    n = realize(len(p))
    seq = "".join(LETTERS[i % 26] for i in range(n))
    problems = []
    members = fc = None
    try:
        b = BpSeq([Entry(i + 1, seq[i], p[i]) for i in range(n)])
        members = [(d.sequence, d.structure) for d in b.all_dot_brackets]
        fc = b.fcfs.structure
    except Exception as e:  # noqa: BLE001
        problems.append((f"exception {type(e).__name__}: {e}", "exception"))
    pc = [realize(x) for x in p]
    members = deep_realize(members)
    fc = realize(fc)
    stats = {"queries": 0, "unknown": 0, "solver_s": 0.0}
    mism = False
    with NoTracing():
        if not problems:
            try:
                nb = BpSeq([Entry(i + 1, seq[i], pc[i]) for i in range(n)])
                opt = nb.dot_bracket.structure
                nat = sorted(d.structure for d in BpSeq([Entry(i + 1, seq[i], pc[i]) for i in range(n)]).all_dot_brackets)
                mism = nat != sorted(m[1] for m in members)
                if any(m[0] != seq for m in members):
                    problems.append(("a member carries a different sequence", "member-lossless"))
                check_list(pc, [m[1] for m in members], opt, fc, problems, stats)
            except Exception as e:  # noqa: BLE001
                problems.append((f"exception {type(e).__name__}: {e}", "exception"))
        keys = sorted({f"BpSeq.all_dot_brackets:{k}" for _, k in problems})
        ok = all(k in known_keys(PID) for k in keys)
        rec = {"p": pc, "members": len(members or []), "problems": [m for m, _ in problems][:4], "keys": keys,
               "stats": stats, "kind": "pairing", "dual_mismatch": bool(mism)}
        if ident is not None:
            rec["id"] = ident
        log(rec)
    return ok and not mism


def body_inflated(p, lens):
    from harness.e1_common import realize, NoTracing
    pc = [realize(x) for x in p]
    lc = [realize(x) for x in lens]
    with NoTracing():
        return body(inflate(pc, lc), [pc, lc])


def body_family(kind, k, p):
    """structured families: kind 0 = k leading hairpins + knotted tail; kind 1 = hairpins interleaved into the tail"""
    from harness.e1_common import realize, NoTracing
    kc = realize(k)
    pc = [realize(x) for x in p]
    big = padded(kc, pc) if kind == 0 else interleaved(kc, pc)
    with NoTracing():
        return body(big, [kind, kc, pc])


def body_star(k):
    return body(star(k), ["star", k])


def body_concat(a, b):
    return body(concat(list(a), list(b)), ["concat", list(a), list(b)])


def replay(rec):
    import harness.e1_common as ec
    saved = ec.known_keys
    ec.known_keys = lambda pid: set()
    try:
        return body(rec["p"])
    finally:
        ec.known_keys = saved


def run(rep, tier):
    from vlib import e1
    from harness import pairing_driver as pd
    Nmax = 8 if tier == "quick" else 10
    T = 900 if tier == "quick" else 3000
    parts = pd.base_partitions(1, Nmax)
    parts.sort(key=lambda x: -(x.expected or 0))
    e1.run("harness.c16", parts, per_condition_timeout=T)
    if tier == "quick":
        spec = [("inflated", 4, 2, 2), ("inflated", 5, 2, 2), ("inflated", 6, 3, 2), ("padded", 4, 12), ("padded", 5, 12), ("padded", 6, 12), ("interleaved", 6),
                ("interleaved", 4), ("interleaved", 5), ("star", 8), ("concat", 6, 5)]
    else:
        spec = [("inflated", n, k, 2) for n in range(4, 8) for k in range(2, n // 2 + 1)] + [("inflated", 8, 4, 2), ("inflated", 10, 5, 1),
                ("inflated", 12, 6, 1)] + [("padded", n, 12) for n in (4, 5, 6)] + [("interleaved", n) for n in (4, 5, 6)] + [("star", 8), ("concat", 6, 6)]
    parts += pd.run_families(rep, "harness.c16", spec)
    e1.collect(rep, parts, "harness.c16")
    agg = {}
    for pt in parts:
        for r in pt.records:
            for k, v in (r.get("stats") or {}).items():
                agg[k] = agg.get(k, 0) + v
    q = int(agg.get("queries", 0))
    rep.add(transitions=q, obligations=q, discharged=q - int(agg.get("unknown", 0)), undecided=int(agg.get("unknown", 0)))
    rep.cov["inner"] = agg
    rep.add(functions_encoded=["BpSeq.all_dot_brackets (conflict graph, components, greedy colouring of every permutation, product, "
                               "de-duplication; traced by CrossHair)", "BpSeq.fcfs", "BpSeq.dot_bracket (natively, membership)",
                               "BpSeq.__make_dot_bracket"],
            bounds={"pairings N<=": Nmax, "families": [list(x) for x in spec],
                    "group size": "<= 6 mutually reachable stems", "outside": "larger structures"},
            engines=["E1 CrossHair (outer)", "z3 AllSAT (families)", "z3 LIA (inner: member soundness sat-checks and the completeness unsat query)"],
            exhaustive=True,
            rule="states = distinct inputs (CrossHair path ends / AllSAT models); transitions = executions + solver queries; "
                 "obligations = partitions + per structure one completeness query (unsat) and one soundness query per member",
            stubs=[])
    rep.assume("'greedy-stable' is read as the Grundy condition: every stem's level is the least level not used by a crossing stem "
               "among the levels below it, i.e. for every l < level(s) some stem crossing s sits on l",
               "levels range over 0..R-1 for R stems (a Grundy colouring never needs more)",
               "families are enumerated by z3 AllSAT and executed natively (inputs are concretised before the real code runs)")
