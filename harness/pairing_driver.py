"""Shared driver pieces for the pairing-table properties."""
from harness.pairing_lib import all_pairings, is_knotted
from vlib import e1, allsat
from vlib.e1 import Partition


def depth_for(n):
    return 0 if n <= 5 else (1 if n <= 7 else (2 if n <= 9 else 3))


def base_partitions(nmin, nmax, body="body", prefix="n"):
    """CrossHair partitions: every valid pairing on nmin..nmax positions, split on a prefix of p"""
    parts = []
    for n in range(nmin, nmax + 1):
        pr = list(all_pairings(n))
        for pref, cnt in e1.prefix_partitions(n, depth_for(n), pr):
            pres = [f"len(p) == {n}"] + [f"p[{i}] == {v}" for i, v in enumerate(pref)] + ["valid(p)"]
            parts.append(Partition(f"{prefix}{n}_" + "_".join(map(str, pref)), pres, expected=cnt, body=body))
    return parts


def count_knotted(n, k=None):
    c = 0
    for p in all_pairings(n):
        if is_knotted(p) and (k is None or sum(1 for i in range(n) if p[i] > i + 1) == k):
            c += 1
    return c


def run_families(rep, module, spec, body_inflated="body_inflated", body_family="body_family"):
    """spec: list of ('inflated', n, k, maxlen) | ('padded', n, kmax) | ('interleaved', n).
    z3 AllSAT enumerates each family completely; bodies run natively in a process pool."""
    out = []
    for item in spec:
        if item[0] == "inflated":
            _, n, k, maxlen = item
            inputs, nq, dt = allsat.inflated_inputs(n, k, maxlen)
            exp = count_knotted(n, k) * maxlen ** k
            name = f"inflated_n{n}_k{k}_len{maxlen}"
            desc = [f"knotted arc diagram on {n} positions with {k} arcs", f"every arc a stem of 1..{maxlen} pairs"]
            pt = allsat.run_family(name, module, body_inflated, inputs, desc, expected=exp)
        elif item[0] == "chain4":
            # four stems whose conflict graph is a path A-B-C-D, every stem 1..maxlen pairs long (z3 AllSAT over the four lengths)
            import z3
            _, maxlen = item
            L = [z3.Int(f"len{i}") for i in range(4)]
            models, nq, dt = allsat.allsat(L, [z3.And(x >= 1, x <= maxlen) for x in L])
            inputs = [([3, 5, 1, 7, 2, 8, 4, 6], m) for m in models]
            exp, name = maxlen ** 4, "chain4"
            pt = allsat.run_family(f"chain4_len{maxlen}", module, body_inflated, inputs,
                                   ["arc diagram (1,3)(2,5)(4,7)(6,8): conflict graph is a path of four stems", f"stem lengths 1..{maxlen} each"],
                                   expected=exp, chunksize=16)
        elif item[0] == "star":
            _, kmax = item
            inputs = [(k,) for k in range(2, kmax + 1)]
            pt = allsat.run_family(f"star_k<={kmax}", module, "body_star", inputs, [f"star-shaped groups of exactly k crossing stems, k = 2..{kmax}"],
                                   expected=len(inputs), chunksize=1)
            nq, dt, exp, name = 0, 0.0, len(inputs), "star"
        elif item[0] == "concat":
            _, n1, n2 = item
            t1 = [p for n in range(4, n1 + 1) for p in all_pairings(n) if is_knotted(p)]
            t2 = [p for n in range(4, n2 + 1) for p in all_pairings(n) if is_knotted(p)]
            inputs = [(a, b) for a in t1 for b in t2]
            exp = len(inputs)
            pt = allsat.run_family(f"concat_{n1}_{n2}", module, "body_concat", inputs,
                                   [f"a knotted structure on 4..{n1} positions followed by one on 4..{n2} positions (two independent groups)"],
                                   expected=exp, chunksize=8)
            nq, dt, name = 0, 0.0, "concat"
        else:
            kind = 0 if item[0] == "padded" else 1
            n = item[1]
            kmax = item[2] if kind == 0 else n
            inputs, nq, dt = allsat.family_inputs(kind, n, kmax)
            exp = count_knotted(n) * (kmax + 1)
            name = f"{item[0]}_n{n}"
            desc = [f"knotted tail on {n} positions", f"{item[0]} with 0..{kmax} hairpins '(.)'"]
            pt = allsat.run_family(name, module, body_family, inputs, desc, expected=exp)
        rep.add(transitions=nq, solver_s=dt)
        if len(inputs) != exp:
            rep.harness_error(f"{name}: z3 AllSAT produced {len(inputs)} models, independent count is {exp}")
        out.append(pt)
    return out
