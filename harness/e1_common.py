"""Helpers imported by the generated CrossHair harness files (E1)."""
import json
import logging
import os

logging.disable(logging.CRITICAL)

try:
    from crosshair import realize, deep_realize  # noqa: F401
    from crosshair.tracers import NoTracing  # noqa: F401
except ImportError:  # plain interpreter without CrossHair: everything is already concrete
    import contextlib

    def realize(x):
        return x

    def deep_realize(x):
        return x
    NoTracing = contextlib.nullcontext

# the side log is opened at import time (outside CrossHair's side-effect audit) and written
# with os.write, so that every explored path leaves its realised input behind
_FD = None
if os.environ.get("VERIF_SIDELOG"):
    _FD = os.open(os.environ["VERIF_SIDELOG"], os.O_WRONLY | os.O_CREAT | os.O_APPEND)


RECORDS = []   # native mode (no side log): records are collected here


def log(rec):
    if _FD is None:
        RECORDS.append(json.loads(json.dumps(rec, default=str)))
        return
    with NoTracing():
        os.write(_FD, (json.dumps(rec, default=str) + "\n").encode())


def known_keys(pid):
    p = os.path.join(os.path.dirname(os.path.dirname(os.path.abspath(__file__))), "known_findings.json")
    try:
        with open(p) as f:
            return {k["key"] for k in json.load(f).get("findings", [])
                    if k.get("property") == pid and k.get("status") == "known"}
    except Exception:
        return set()


def stub_pulp_clock():
    """pulp reads the wall clock around solve(); the clock is environment (CrossHair models
    it as a nondeterministic float it cannot decide), so it is stubbed to a constant."""
    import pulp

    def _clk(self):
        self.solutionTime = 0.0
        self.solutionCpuTime = 0.0
    pulp.LpProblem.startClock = _clk
    pulp.LpProblem.stopClock = _clk
