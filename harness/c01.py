"""C01 — BPSEQ <-> dot-bracket conversion is lossless for every encoder (engine E1 + E3).

Bodies (`body_*`) are executed by CrossHair on symbolic inputs; `run` is the driver.
"""
import json
import os
import sys

from harness.pairing_lib import *

PID = "C01"


# ----------------------------------------------------------------------------- bodies
def _native_optimal(pc, seq):
    """optimal notation(s) natively on the path witness: real default solver, and every optimal
    solution of the captured MILP handed back through the solver stub (read-back + filling)"""
    from rnapolis.common import BpSeq, Entry
    from vlib import e3
    outs = []
    b = BpSeq([Entry(i + 1, seq[i], pc[i]) for i in range(len(pc))])
    d = b.dot_bracket
    outs.append(("optimal/default-solver", d.sequence, d.structure))
    cap = e3.CaptureSolver()
    d = BpSeq([Entry(i + 1, seq[i], pc[i]) for i in range(len(pc))]).convert_to_dot_bracket(cap)
    outs.append(("optimal/z3-solution-0", d.sequence, d.structure))
    if cap.data is not None:
        opt, sols, complete = e3.all_optimal(cap.data, cap=16)
        for k, sol in enumerate(sols[1:], 1):
            d = BpSeq([Entry(i + 1, seq[i], pc[i]) for i in range(len(pc))]).convert_to_dot_bracket(
                e3.CaptureSolver(("solution", sol)))
            outs.append((f"optimal/z3-solution-{k}", d.sequence, d.structure))
    return outs


def body_fwd(p, ident=None):
    from harness.e1_common import realize, deep_realize, NoTracing, log, known_keys
    from rnapolis.common import BpSeq, Entry, DotBracket
    n = realize(len(p))
    seq = "".join(LETTERS[i % 26] for i in range(n))
    problems = []
    outs = []
    try:
        b = BpSeq([Entry(i + 1, seq[i], p[i]) for i in range(n)])
        f = b.fcfs
        outs.append(("fcfs", f.sequence, f.structure))
        for k, d in enumerate(b.all_dot_brackets):
            outs.append((f"all[{k}]", d.sequence, d.structure))
        text = str(b)
        b2 = BpSeq.from_string(text)
        if not (b2 == b):
            problems.append(("BpSeq.from_string(str(b)) != b", "text"))
        # decoder of the library agrees as well (converse direction on produced strings)
        b3 = BpSeq.from_dotbracket(f)
        if [e.pair for e in b3.entries] != [e.pair for e in b.entries]:
            problems.append(("from_dotbracket(fcfs) changes the pairs", "fcfs"))
    except Exception as e:  # noqa: BLE001 (CrossHair control flow is BaseException)
        problems.append((f"exception {type(e).__name__}: {e}", "exception"))
    pc = [realize(x) for x in p]
    outs = deep_realize(outs)
    problems = deep_realize(problems)
    with NoTracing():
        try:
            outs += _native_optimal(pc, seq)
        except Exception as e:  # noqa: BLE001
            problems.append((f"exception in optimal encoder {type(e).__name__}: {e}", "optimal/exception"))
        # dual execution: the same calls natively on the witness must give the same strings
        try:
            nb = BpSeq([Entry(i + 1, seq[i], pc[i]) for i in range(n)])
            nat = [("fcfs", nb.fcfs.sequence, nb.fcfs.structure)]
            sym_all = sorted(o[2] for o in outs if o[0].startswith("all["))
            nat_all = sorted(d.structure for d in nb.all_dot_brackets)
            mism = (outs and outs[0][0] == "fcfs" and outs[0] != nat[0]) or (sym_all != nat_all)
        except Exception:  # noqa: BLE001
            mism = not problems
        for name, dseq, s in outs:
            for pr in lossless_problems(pc, seq, dseq, s):
                problems.append((f"{name}: {pr}", name.split("[")[0].split("/")[0]))
        keys = sorted({f"BpSeq.{k}" for _, k in problems})
        ok = all(k in known_keys(PID) for k in keys)
        rec = {"p": pc, "outs": len(outs), "problems": [m for m, _ in problems][:4], "keys": keys,
               "dual_mismatch": bool(mism), "kind": "fwd"}
        if ident is not None:
            rec["id"] = ident
        log(rec)
    return ok and not mism


def body_fcfs(p):
    """first-come-first-served encoder and the list of all encodings natively on a larger pairing (no MILP): lossless, stem-uniform"""
    from harness.e1_common import log, known_keys
    from rnapolis.common import BpSeq, Entry
    pc = list(p)
    n = len(pc)
    seq = "".join(LETTERS[i % 26] for i in range(n))
    problems = []
    try:
        b = BpSeq([Entry(i + 1, seq[i], pc[i]) for i in range(n)])
        outs = [("fcfs", b.fcfs.sequence, b.fcfs.structure)]
        if sum(1 for i in range(n) if pc[i] > i + 1) <= 4:
            outs += [(f"all[{k}]", d.sequence, d.structure) for k, d in enumerate(b.all_dot_brackets)]
        if [e.pair for e in BpSeq.from_dotbracket(b.fcfs).entries] != pc:
            problems.append(("from_dotbracket(fcfs) changes the pairs", "fcfs"))
        for name, dseq, st in outs:
            for pr in lossless_problems(pc, seq, dseq, st):
                problems.append((f"{name}: {pr}", name.split("[")[0]))
    except Exception as e:  # noqa: BLE001
        problems.append((f"exception {type(e).__name__}: {e}", "exception"))
    keys = sorted({f"BpSeq.{k}" for _, k in problems})
    ok = all(k in known_keys(PID) for k in keys)
    log({"p": pc, "outs": 1, "problems": [m for m, _ in problems][:4], "keys": keys, "dual_mismatch": False, "kind": "fwd"})
    return ok


def body_family(kind, k, p):
    """structured families: kind 0 = k leading hairpins + knotted tail; kind 1 = hairpins interleaved into the tail"""
    from harness.e1_common import realize, NoTracing
    kc = realize(k)
    pc = [realize(x) for x in p]
    big = padded(kc, pc) if kind == 0 else interleaved(kc, pc)
    with NoTracing():
        return body_fwd(big, [kind, kc, pc])


def body_inflated(p, lens):
    from harness.c02 import inflate
    return body_fwd(inflate(list(p), list(lens)), [list(p), list(lens)])


def body_star(k):
    return body_fwd(star(k), ["star", k])


def body_concat(a, b):
    return body_fwd(concat(list(a), list(b)), ["concat", list(a), list(b)])


def body_rev(p, lv):
    """converse: balanced dot-bracket (pairing + level per pair, same level => non-crossing)
    -> from_dotbracket -> back; the pair set is preserved"""
    from harness.e1_common import realize, deep_realize, NoTracing, log, known_keys
    from rnapolis.common import BpSeq, Entry, DotBracket
    n = realize(len(p))
    seq = LETTERS[:n]
    problems = []
    st = ["."] * n
    k = 0
    for i in range(n):
        if p[i] > i + 1:
            st[i] = OPEN[lv[k]]
            st[p[i] - 1] = CLOSE[lv[k]]
            k += 1
    s = "".join(st)
    got = None
    try:
        db = DotBracket.from_string(seq, s)
        b = BpSeq.from_dotbracket(db)
        got = [e.pair for e in b.entries]
        back = [b.fcfs.structure, DotBracket.from_string(seq, b.fcfs.structure).pairs]
        seqs = [b.sequence, [e.index_ for e in b.entries]]
    except Exception as e:  # noqa: BLE001
        problems.append(f"exception {type(e).__name__}: {e}")
    pc = [realize(x) for x in p]
    sc = realize(s)
    got = deep_realize(got)
    with NoTracing():
        if not problems:
            back = deep_realize(back)
            seqs = deep_realize(seqs)
            if got != pc:
                problems.append(f"from_dotbracket({sc!r}) pairs {got} != {pc}")
            if seqs != [seq, list(range(1, n + 1))]:
                problems.append(f"from_dotbracket({sc!r}) sequence/indices {seqs}")
            d = decode(back[0])
            if d is None or set(d) != pairs_of(pc):
                problems.append(f"{sc!r} -> bpseq -> {back[0]!r} changes the pair set")
            if sorted((i + 1, j + 1) for i, j in back[1]) != sorted(pairs_of(pc)):
                problems.append(f"library decoder on {back[0]!r} gives {back[1]}")
        keys = ["BpSeq.from_dotbracket"] if problems else []
        ok = all(k in known_keys(PID) for k in keys)
        log({"p": [pc, deep_realize(list(lv))], "s": sc, "problems": problems, "keys": keys, "kind": "rev"})
    return ok


def body_levels(l1, l2):
    """bracket tables: the real filling routine with symbolic levels for two crossing stems,
    then the independent decoder and the library decoder on its output"""
    from harness.e1_common import realize, deep_realize, NoTracing, log, known_keys
    from rnapolis.common import BpSeq, Entry, DotBracket
    # stems: (1,6),(2,5) nested run of length 2 ; (4,8) crossing it ; (9,10) free hairpin
    pc = [6, 5, 0, 8, 2, 1, 0, 4, 10, 9]
    n = len(pc)
    seq = LETTERS[:n]
    problems = []
    try:
        b = BpSeq([Entry(i + 1, seq[i], pc[i]) for i in range(n)])
        regions = [(1, 6, 2), (4, 8, 1), (9, 10, 1)]
        d = b._BpSeq__make_dot_bracket(regions, [l1, l2, l1])
        s = d.structure
        libpairs = sorted((i + 1, j + 1) for i, j in d.pairs)
    except Exception as e:  # noqa: BLE001
        problems.append(f"exception {type(e).__name__}: {e}")
    a, c = realize(l1), realize(l2)
    with NoTracing():
        if not problems:
            s = realize(s)
            libpairs = deep_realize(libpairs)
            dec = decode(s)
            if dec is None:
                problems.append(f"levels ({a},{c}): unbalanced {s!r}")
            else:
                want = {(1, 6): a, (2, 5): a, (4, 8): c, (9, 10): a}
                if dec != want:
                    problems.append(f"levels ({a},{c}): {s!r} decodes to {dec}")
            if libpairs != sorted(pairs_of(pc)):
                problems.append(f"levels ({a},{c}): library decoder reads {libpairs} from {s!r}")
        keys = ["BpSeq.make_dot_bracket:levels"] if problems else []
        ok = all(k in known_keys(PID) for k in keys)
        log({"p": [a, c], "problems": problems, "keys": keys, "kind": "levels"})
    return ok


def body_ladder(k):
    """k mutually crossing single pairs (i, k+i): FCFS must use levels 0..k-1 in order"""
    from harness.e1_common import realize, deep_realize, NoTracing, log, known_keys
    from rnapolis.common import BpSeq, Entry
    problems = []
    kc = realize(k)
    n = 2 * kc
    # positions 1..k pair with k+1..2k in the same order, separated so that no two pairs stack
    pc = [kc + i + 1 for i in range(kc)] + [i + 1 for i in range(kc)]
    seq = "".join(LETTERS[i % 26] for i in range(n))
    try:
        b = BpSeq([Entry(i + 1, seq[i], pc[i]) for i in range(n)])
        s = realize(b.fcfs.structure)
        text = realize(str(BpSeq.from_dotbracket(b.fcfs)))
    except Exception as e:  # noqa: BLE001
        problems.append(f"exception {type(e).__name__}: {e}")
    with NoTracing():
        if not problems:
            for pr in lossless_problems(pc, seq, seq, s):
                problems.append(f"ladder {kc}: fcfs: {pr}")
            if s != OPEN[:kc] + CLOSE[:kc]:
                problems.append(f"ladder {kc}: fcfs gives {s!r}")
            want = "\n".join(f"{i + 1} {seq[i]} {pc[i]}" for i in range(n))
            if text != want:
                problems.append(f"ladder {kc}: from_dotbracket(fcfs) text differs")
        keys = ["BpSeq.fcfs:ladder"] if problems else []
        ok = all(x in known_keys(PID) for x in keys)
        log({"p": [kc], "problems": problems, "keys": keys, "kind": "ladder"})
    return ok


def body_multistrand(p, cut):
    """multi-strand text (two strands cut after position `cut`) concatenates to the same structure"""
    from harness.e1_common import realize, deep_realize, NoTracing, log, known_keys
    from rnapolis.common import BpSeq, Entry, MultiStrandDotBracket
    n = realize(len(p))
    seq = "".join("ACGU"[i % 4] for i in range(n))
    problems = []
    try:
        b = BpSeq([Entry(i + 1, seq[i], p[i]) for i in range(n)])
        s = b.fcfs.structure
        text = f">strand_A\n{seq[:cut]}\n{s[:cut]}\n>strand_B\n{seq[cut:]}\n{s[cut:]}"
        m = MultiStrandDotBracket.from_string(text)
        got = [m.sequence, m.structure, sorted(m.pairs), [(x.first, x.last, x.sequence, x.structure) for x in m.strands]]
        pairs_back = [e.pair for e in BpSeq.from_dotbracket(m).entries]
    except Exception as e:  # noqa: BLE001
        problems.append(f"exception {type(e).__name__}: {e}")
    pc = [realize(x) for x in p]
    cc = realize(cut)
    with NoTracing():
        if not problems:
            got = deep_realize(got)
            s = realize(s)
            pairs_back = deep_realize(pairs_back)
            if got[0] != seq or got[1] != s:
                problems.append(f"cut {cc}: concatenation {got[0]!r}/{got[1]!r} != {seq!r}/{s!r}")
            if pairs_back != pc:
                problems.append(f"cut {cc}: pairs {pairs_back} != {pc}")
            want = [(1, cc, seq[:cc], s[:cc]), (cc + 1, n, seq[cc:], s[cc:])]
            if [tuple(x) for x in got[3]] != want:
                problems.append(f"cut {cc}: strands {got[3]} != {want}")
        keys = ["MultiStrandDotBracket.from_string"] if problems else []
        ok = all(x in known_keys(PID) for x in keys)
        log({"p": pc + [cc], "problems": problems, "keys": keys, "kind": "multistrand"})
    return ok


# ----------------------------------------------------------------------------- replay
REPLAY = '''
sys.path.insert(0, {verif!r})
from harness.pairing_lib import *
from harness import c01
import harness.e1_common  # provides realize/NoTracing no-ops natively
rec = {rec!r}
ok = c01.replay(rec)
print("reproduced" if not ok else "not reproduced", rec)
sys.exit(0 if ok else 1)
'''


def replay(rec):
    """native re-evaluation of one recorded case; True = property holds"""
    kind = rec["kind"]
    a = rec["p"]
    import harness.e1_common as ec
    saved = ec.known_keys
    ec.known_keys = lambda pid: set()
    try:
        if kind == "fwd":
            return body_fwd(a)
        if kind == "rev":
            return body_rev(a[0], a[1])
        if kind == "levels":
            return body_levels(a[0], a[1])
        if kind == "ladder":
            return body_ladder(a[0])
        if kind == "multistrand":
            return body_multistrand(a[:-1], a[-1])
    finally:
        ec.known_keys = saved
    raise ValueError(kind)


# ----------------------------------------------------------------------------- driver
def run(rep, tier):
    from vlib import e1
    from vlib.e1 import Partition
    Nmax = 7 if tier == "quick" else 9
    Nrev = 5 if tier == "quick" else 7
    T = 600 if tier == "quick" else 3000
    parts = []
    total = 0
    for n in range(1, Nmax + 1):
        pr = list(all_pairings(n))
        total += len(pr)
        depth = 0 if n <= 5 else (1 if n <= 7 else 2)
        for pref, cnt in e1.prefix_partitions(n, depth, pr):
            pres = [f"len(p) == {n}"] + [f"p[{i}] == {v}" for i, v in enumerate(pref)] + ["valid(p)"]
            parts.append(Partition(f"fwd_n{n}_" + "_".join(map(str, pref)), pres, expected=cnt, body="body_fwd"))
    # converse direction: pairing + level per pair (levels < L), same level => non-crossing
    L = 3 if tier == "quick" else 4
    for n in range(2, Nrev + 1):
        for npairs in range(1, n // 2 + 1):
            pres = [f"len(p) == {n}", f"len(lv) == {npairs}", "valid(p)",
                    f"sum(1 for i in range({n}) if p[i] > i + 1) == {npairs}",
                    f"all(0 <= x < {L} for x in lv)", "levels_proper(p, lv)"]
            parts.append(Partition(f"rev_n{n}_k{npairs}", pres, sig="p: List[int], lv: List[int]", call="p, lv",
                                   body="body_rev", expected=count_rev(n, npairs, L)))
    # bracket tables: two symbolic levels over all 30 types
    if tier == "quick":
        parts.append(Partition("levels_a", ["0 <= l1 < 30", "l2 == (l1 + 7) % 30"], sig="l1: int, l2: int", call="l1, l2",
                               body="body_levels", expected=30))
    else:
        for a in range(0, 30, 5):
            parts.append(Partition(f"levels_{a}", [f"{a} <= l1 < {a + 5}", "0 <= l2 < 30", "l1 != l2"], sig="l1: int, l2: int",
                                   call="l1, l2", body="body_levels", expected=5 * 29))
    parts.append(Partition("ladder", ["1 <= k <= 30"], sig="k: int", call="k", body="body_ladder", expected=30))
    nms = 6 if tier == "quick" else 8
    for c in range(1, nms):
        parts.append(Partition(f"multistrand_cut{c}", [f"len(p) == {nms}", "valid(p)", f"cut == {c}"], sig="p: List[int], cut: int",
                               call="p, cut", body="body_multistrand", expected=len(list(all_pairings(nms)))))
    parts.sort(key=lambda x: -(x.expected or 0))
    e1.run("harness.c01", parts, per_condition_timeout=T)
    from harness import pairing_driver as pd
    fam = [("padded", n, 12) for n in (4, 5, 6)] + [("interleaved", n) for n in (4, 5, 6)] + [("inflated", 6, 3, 2), ("star", 7), ("concat", 6, 5)]
    if tier != "quick":
        fam += [("inflated", 8, 4, 2), ("inflated", 7, 3, 3)]
    parts += pd.run_families(rep, "harness.c01", fam, body_inflated="body_inflated")
    # larger pairings through the solver-free encoders only (FCFS, and the list of all encodings for <= 4 pairs): z3 AllSAT + native execution
    from vlib import allsat
    for n in ([8, 9] if tier == "quick" else [10, 11]):
        models, nq, dt = allsat.pairings(n)
        rep.add(transitions=nq, solver_s=dt)
        exp = len(list(all_pairings(n))) if n <= 10 else None
        if exp is not None and len(models) != exp:
            rep.harness_error(f"fcfs_n{n}: z3 AllSAT produced {len(models)} models, independent count is {exp}")
        parts.append(allsat.run_family(f"fcfs_n{n}", "harness.c01", "body_fcfs", [(list(m),) for m in models],
                                       [f"every pairing on {n} positions", "FCFS encoder (and all encodings for <= 4 pairs), no MILP"], expected=exp, chunksize=64))
    e1.collect(rep, parts, "harness.c01")
    rep.add(functions_encoded=["BpSeq.__post_init__", "BpSeq.paired", "BpSeq.__stems_entries", "BpSeq.__regions",
                               "BpSeq.fcfs", "BpSeq.all_dot_brackets", "BpSeq.__make_dot_bracket",
                               "BpSeq.convert_to_dot_bracket (natively on each path witness: real default solver + every optimal solution of the captured MILP)",
                               "BpSeq.from_dotbracket", "BpSeq.from_string", "BpSeq.__str__", "DotBracket.__post_init__",
                               "DotBracket.from_string", "MultiStrandDotBracket.from_string"],
            bounds={"forward N<=": Nmax, "converse N<=": Nrev, "converse bracket types": L,
                    "bracket tables": "all 30 types on two crossing stems" if tier != "quick" else "30 types, second level = first+7 mod 30",
                    "families": "k<=12 leading hairpins + every knotted tail on 4..6 positions; hairpins interleaved into the tail; inflated knotted diagrams",
                    "ladder": "k<=30 mutually crossing pairs through FCFS", "fcfs natively": "every pairing on 8-9 (quick) / 10-11 (thorough) positions", "multistrand N": nms,
                    "outside": "N larger than the bounds; structures needing >5 levels except ladders; non-letter sequences"},
            engines=["E1 CrossHair 0.0.110 (z3 5.1.0)", "E3 captured MILP -> z3 LIA"], exhaustive=True,
            rule="states = distinct realised inputs at the end of CrossHair paths (path classes); transitions = path executions; "
                 "one obligation per partition, discharged when CrossHair prints 'Confirmed over all paths' "
                 "and the number of path classes equals an independent count of the bounded space",
            stubs=["MILP solver (stub returns each optimal solution computed by z3 from the captured LP); real CBC also run natively"])
    rep.assume("sequence letters are concrete and pairwise distinct (the code copies letters, never branches on them)",
               "the pulp model is built natively on the realised witness of each path (CrossHair's dict model mis-handles LpVariable.__eq__)",
               "external MILP solver returns an optimal solution of the LP it was given (faults are C13)")


def levels_proper(p, lv):
    prs = [(i + 1, p[i]) for i in range(len(p)) if p[i] > i + 1]
    if len(prs) != len(lv):
        return False
    for a in range(len(prs)):
        for b in range(a + 1, len(prs)):
            if lv[a] == lv[b] and crossing(prs[a], prs[b]):
                return False
    return True


def count_rev(n, npairs, L):
    import itertools
    c = 0
    for p in all_pairings(n):
        prs = sorted(pairs_of(p))
        if len(prs) != npairs:
            continue
        for lv in itertools.product(range(L), repeat=npairs):
            if levels_proper(p, list(lv)):
                c += 1
    return c
