"""C17 — clash detection equals the pairwise van-der-Waals definition (E2).

Part A: the real `find_clashes` on 2 or 3 atoms placed on a line with symbolic gaps, symbolic occupancies
(real in (0,1] or None), atom names from a set, `is_nucleotide` symbolic, the five options symbolic; the
KD-tree is a stub that honours the radius the code passes.  Obligations in margin form.
Part B: the real `main()` with `read_3d_structure`, `find_clashes`, `read_metadata`, `open`, `print` stubbed and
up to 3 listed clashes with symbolic occupancy sums: printed per-residue / per-chain maxima must equal the maxima
over the listed clashes; the CSV must list the same clashes.
"""
import fractions
import itertools
import multiprocessing
import sys
import time

PID = "C17"
F = fractions.Fraction
RADII = {"C": F(6, 10), "N": F(54, 100), "O": F(53, 100), "P": F(94, 100)}
NAMES = ["C4'", "N1", "O2'", "P", "OP1", "H5'", "MG", "C5", "O3'"]
MARGIN = F(1, 10 ** 6)


class KD:
    """KD-tree stub: exactly the index pairs (i<j) within r of each other, for the r the code passes"""

    def __init__(self, pts):
        self.pts = [list(p) for p in pts]

    def query_pairs(self, r):
        out = set()
        for i in range(len(self.pts)):
            for j in range(i + 1, len(self.pts)):
                d2 = sum((self.pts[i][k] - self.pts[j][k]) * (self.pts[i][k] - self.pts[j][k]) for k in range(3))
                if d2 <= r * r:
                    out.add((i, j))
        return out


def typed(name):
    return name.strip()[:1] in RADII


def job_find(spec):
    """spec = (natoms, layout, names tuple, axis) ; layout: residue index per atom"""
    natoms, layout, names, axis = spec[:4]
    ident = spec[4] if len(spec) > 4 else "num"      # "icode": residues share chain and number and differ in insertion code only

    def auth_of(r):
        from rnapolis.common import ResidueAuth as RA
        if ident == "desc":       # residues listed in descending order of their numbers (file order != sorted order)
            return RA("A", 9 - r, None, "G")
        return RA("A", r + 1, None, "G") if ident == "num" else RA("A", 10, [None, "A", "B"][r], "G")
    reduced = natoms >= 3     # 3 atoms: only ignore_occupancy / ignore_autoclashes / molprobity symbolic, occupancies present, all nucleotides
    sys.path.insert(0, "/verif")
    import z3
    from symx.engine import Engine, SBool, SReal
    from symx.shims import MathShim
    import rnapolis.clashfinder as CF
    from rnapolis.tertiary import Atom, Residue3D
    from rnapolis.common import ResidueAuth
    CF.KDTree = KD
    CF.math = MathShim()
    eng = Engine(timeout_ms=10000)
    gaps = [eng.real(f"d{i}") for i in range(natoms - 1)]
    for g in gaps:
        eng.assume(g.e >= 0, g.e <= 4)
    off = [eng.real(n) for n in ("ox", "oy", "oz")]
    occ_sym = [eng.real(f"occ{i}") for i in range(natoms)]
    occ_none = [z3.Bool(f"occnone{i}") for i in range(natoms)]
    for o in occ_sym:
        eng.assume(o.e > 0, o.e <= 1)
    opts = [z3.Bool(n) for n in ("ignore_occupancy", "ignore_autoclashes", "nucleic_acid_only", "require_same_atom_name", "molprobity")]
    nres = max(layout) + 1
    isnuc = [z3.Bool(f"isnuc{r}") for r in range(nres)]
    stats = {"paths": 0, "verdicts": [], "reach_listed": 0}

    if reduced:
        eng.assume(z3.Not(opts[2]), z3.Not(opts[3]), *[z3.Not(b) for b in occ_none], *isnuc)

    def run():
        o = [bool(SBool(eng, b)) for b in opts]
        pos = [eng.const(0)]
        for g in gaps:
            pos.append(pos[-1] + g)
        atoms_by_res = {r: [] for r in range(nres)}
        ats = []
        for i in range(natoms):
            xyz = [off[0] * 1, off[1] * 1, off[2] * 1]
            xyz[axis] = xyz[axis] + pos[i]
            oc = None if bool(SBool(eng, occ_none[i])) else occ_sym[i]
            auth = auth_of(layout[i])
            at = Atom(None, None, auth, 1, names[i], xyz[0], xyz[1], xyz[2], oc)
            ats.append(at)
            atoms_by_res[layout[i]].append(at)
        residues = []
        for r in range(nres):
            auth = auth_of(r)
            res = Residue3D(None, auth, 1, "G", tuple(atoms_by_res[r]))
            res.__dict__["is_nucleotide"] = bool(SBool(eng, isnuc[r]))
            residues.append(res)
        out = CF.find_clashes(residues, *o)
        return o, [x.occupancy for x in ats], residues, ats, out

    t0 = time.time()
    paths = eng.explore(run)
    for path, out in paths:
        stats["paths"] += 1
        if isinstance(out, Exception):
            stats["verdicts"].append({"ob": f"find_clashes raised {type(out).__name__}: {out}", "v": "sat", "key": "find_clashes:exception",
                                      "w": {"names": names, "layout": layout}})
            continue
        o, occs, residues, ats, result = out
        ign_occ, ign_auto, na_only, same_name, molp = o
        listed = {}
        for (ri, ai), (rj, aj), so in result:
            if not any(a is ai for a in ri.atoms) or not any(a is aj for a in rj.atoms):
                v, m, dt = eng.prove(path, z3.BoolVal(True))
                w = None
                if m is not None:
                    def val0(e):
                        r = m.eval(e, model_completion=True)
                        return float(r.as_fraction()) if z3.is_rational_value(r) else float(r.approx(12).as_fraction())
                    w = {"names": names, "layout": layout, "opts": o, "axis": axis, "ident": ident, "gaps": [val0(g.e) for g in gaps], "kind": "identity",
                         "occ": [None if oc is None else val0(oc.e) for oc in occs], "isnuc": [bool(residues[r].__dict__["is_nucleotide"]) for r in range(nres)],
                         "pair": [0, 1], "listed": True}
                stats["verdicts"].append({"ob": f"a listed clash names atom {ai.name} with residue {ri.auth} / atom {aj.name} with residue {rj.auth}, which is not the atom's residue",
                                          "v": v, "key": "find_clashes:identity", "w": w})
            k = tuple(sorted((ats.index(ai), ats.index(aj))))
            listed[k] = listed.get(k, 0) + 1
        if listed:
            stats["reach_listed"] += 1
        pos = [z3.RealVal(0)]
        for g in gaps:
            pos.append(pos[-1] + g.e)
        for i, j in itertools.combinations(range(natoms), 2):
            ok_static = typed(names[i]) and typed(names[j])
            ri, rj = layout[i], layout[j]
            if na_only:
                nuc_i = residues[ri].__dict__["is_nucleotide"]
                nuc_j = residues[rj].__dict__["is_nucleotide"]
                ok_static = ok_static and nuc_i and nuc_j
            if ign_auto and ri == rj:
                ok_static = False
            if same_name and names[i] != names[j]:
                ok_static = False
            dist = pos[j] - pos[i]
            cnt = listed.get((i, j), 0)
            if cnt > 1:
                stats["verdicts"].append({"ob": f"pair ({names[i]},{names[j]}) listed {cnt} times", "v": "sat", "key": "find_clashes:duplicate",
                                          "w": {"names": names, "layout": layout, "opts": o}})
            if not ok_static:
                if cnt:
                    stats["verdicts"].append({"ob": f"pair ({names[i]},{names[j]}) listed although excluded by typing/options {o}", "v": "sat",
                                              "key": "find_clashes:filter", "w": {"names": names, "layout": layout, "opts": o}})
                continue
            thr = RADII[names[i].strip()[0]] + RADII[names[j].strip()[0]] + (F(1, 2) if molp else 0)
            oi = z3.RealVal(1) if occs[i] is None else occs[i].e
            oj = z3.RealVal(1) if occs[j] is None else occs[j].e
            so = oi + oj
            if cnt:
                neg = [dist > thr + MARGIN]
                if not ign_occ:
                    neg = [z3.Or(dist > thr + MARGIN, so - 1 > MARGIN, 1 - so > MARGIN)]
                v, m, dt = eng.prove(path, neg)
                tag = "listed although too far / occupancy sum != 1"
            else:
                neg = [dist < thr - MARGIN]
                if not ign_occ:
                    neg.append(so == 1)
                v, m, dt = eng.prove(path, neg)
                tag = "not listed although within the radii sum (and occupancy sum 1)"
            w = None
            if v == "sat" and m is not None:
                def val(e):
                    r = m.eval(e, model_completion=True)
                    return float(r.as_fraction()) if z3.is_rational_value(r) else float(r.approx(12).as_fraction())
                w = {"names": names, "layout": layout, "opts": o, "axis": axis, "ident": ident, "gaps": [val(g.e) for g in gaps],
                     "occ": [None if oc is None else val(oc.e) for oc in occs],
                     "isnuc": [bool(residues[r].__dict__["is_nucleotide"]) for r in range(nres)], "pair": [i, j], "listed": bool(cnt)}
            stats["verdicts"].append({"ob": f"({names[i]},{names[j]}) {tag} [opts {o}]", "v": v, "key": "find_clashes:definition", "w": w})
    stats.update(name=f"find{natoms}:{'/'.join(names)}:{layout}:ax{axis}:{ident}", queries=eng.nq, solver_s=round(eng.tq, 2), unknown=eng.unknown,
                 wall_s=round(time.time() - t0, 2), exhausted=getattr(eng, "exhausted", True))
    return stats


REPLAY_FIND = '''
from rnapolis.clashfinder import find_clashes
from rnapolis.tertiary import Atom, Residue3D
from rnapolis.common import ResidueAuth
w = {w!r}
names, layout, gaps = w["names"], w["layout"], w["gaps"]
def auth_of(r):
    if w.get("ident") == "desc": return ResidueAuth("A", 9 - r, None, "G")
    return ResidueAuth("A", r + 1, None, "G") if w.get("ident", "num") == "num" else ResidueAuth("A", 10, [None, "A", "B"][r], "G")
pos = [0.0]
for g in gaps: pos.append(pos[-1] + g)
nres = max(layout) + 1
byres = {{r: [] for r in range(nres)}}; ats = []
for i, nm in enumerate(names):
    xyz = [10.0, 20.0, 30.0]; xyz[w["axis"]] += pos[i]
    a = Atom(None, None, auth_of(layout[i]), 1, nm, xyz[0], xyz[1], xyz[2], w["occ"][i])
    ats.append(a); byres[layout[i]].append(a)
residues = []
for r in range(nres):
    res = Residue3D(None, auth_of(r), 1, "G", tuple(byres[r]))
    res.__dict__["is_nucleotide"] = w["isnuc"][r]
    residues.append(res)
out = find_clashes(residues, *w["opts"])
if w.get("kind") == "identity":
    bad = [(str(ri.auth), ai.name, str(rj.auth), aj.name) for (ri, ai), (rj, aj), so in out if not any(a is ai for a in ri.atoms) or not any(a is aj for a in rj.atoms)]
    print("clashes whose atom is listed with a residue it does not belong to:", bad)
    sys.exit(1 if bad else 0)
i, j = w["pair"]
n = sum(1 for (ri, ai), (rj, aj), so in out if {{ats.index(ai), ats.index(aj)}} == {{i, j}})
print("pair", names[i], names[j], "distance", pos[j] - pos[i], "listed", n, "times; model said listed =", w["listed"])
sys.exit(1 if (n > 0) == w["listed"] else 0)
'''


# ------------------------------------------------------------------------------------------ main()
def job_main(spec):
    """spec = (nclashes, chain/residue layout id, csv flag)"""
    ncl, layout_id, use_csv = spec
    sys.path.insert(0, "/verif")
    import io
    import z3
    from symx.engine import Engine, SReal
    import rnapolis.clashfinder as CF
    from rnapolis.tertiary import Atom, Residue3D
    from rnapolis.common import ResidueAuth
    eng = Engine(timeout_ms=10000)
    registry = {}

    def fmt(self, spec=""):
        tok = f"@{len(registry)}@"
        registry[tok] = self.e
        return tok
    SReal.__format__ = fmt
    SReal.__str__ = lambda self: fmt(self)
    SReal.__repr__ = lambda self: fmt(self)
    occ = [eng.real(f"s{i}") for i in range(ncl)]
    for o in occ:
        eng.assume(o.e > 0, o.e <= 2)

    def mkres(chain, num, names):
        auth = ResidueAuth(chain, num, None, "G")
        ats = tuple(Atom(None, None, auth, 1, nm, float(k), 0.0, 0.0, 1.0) for k, nm in enumerate(names))
        return Residue3D(None, auth, 1, "G", ats)
    rA1 = mkres("A", 1, ["P", "OP1", "O3'"])
    rA2 = mkres("A", 2, ["P", "OP1", "OP2"])
    rB1 = mkres("B", 1, ["P", "C5'", "OP1"])
    layouts = {
        0: [((rA1, 0), (rA2, 0)), ((rA1, 1), (rA2, 1)), ((rA1, 2), (rA2, 2))],       # same residue pair, 3 atom clashes
        1: [((rA1, 0), (rA2, 0)), ((rA1, 1), (rB1, 1)), ((rA2, 2), (rA1, 2))],       # chains (A,A), (A,B), (A,A) other residue pair
        2: [((rA1, 0), (rA1, 1)), ((rA1, 2), (rA2, 1)), ((rA2, 0), (rA2, 2))],       # autoclashes + O3'-OP1 classification
    }
    lay = layouts[layout_id][:ncl]
    clashes = [((ri, ri.atoms[a]), (rj, rj.atoms[b]), occ[k]) for k, ((ri, a), (rj, b)) in enumerate(lay)]
    printed = []
    written = {}

    class FakeFile(io.StringIO):
        def __init__(self, name, mode="r"):
            super().__init__()
            self.name = name
            self._mode = mode

        def close(self):
            if "w" in self._mode:
                written[self.name] = self.getvalue()
            super().close()

        def __exit__(self, *a):
            self.close()

    def fake_open(path, mode="r", *a, **k):
        return FakeFile(path, mode)

    def fake_read_metadata(file, categories):
        # contract of rnapolis.metareader.read_metadata: `file` is an open text file (its .name is read)
        name = file.name
        if not isinstance(name, str):
            raise TypeError("read_metadata needs a file object with a path in .name")
        return {"exptl": [{"method": "X-RAY"}], "refine": [{"ls_d_res_high": "1.9"}]}

    class Args:
        input = "/fake/dir/1abc.cif"
        ignore_occupancy = False
        nucleic_acid_only = False
        ignore_autoclashes = False
        require_same_atom_name = False
        enable_molprobity_mode = False
        csv = "/fake/out.csv" if use_csv else None

    class FakeParser:
        def __init__(self, *a, **k):
            pass

        def add_argument(self, *a, **k):
            pass

        def parse_args(self):
            return Args

    class S3:
        residues = [rA1, rA2, rB1]
    ns = CF.__dict__
    saved = {k: ns.get(k) for k in ("read_3d_structure", "find_clashes", "read_metadata", "open", "print")}
    saved_ap = CF.argparse.ArgumentParser
    stats = {"paths": 0, "verdicts": [], "name": f"main:{ncl}clashes:layout{layout_id}:csv{int(use_csv)}"}
    t0 = time.time()

    def run():
        printed.clear()
        written.clear()
        registry.clear()
        CF.main()
        return list(printed), dict(written), dict(registry)
    try:
        ns["read_3d_structure"] = lambda f, model=None: S3
        ns["find_clashes"] = lambda residues, *o: list(clashes)
        ns["read_metadata"] = fake_read_metadata
        ns["open"] = fake_open
        ns["print"] = lambda *a, **k: printed.append(" ".join(str(x) for x in a))
        CF.argparse.ArgumentParser = FakeParser
        paths = eng.explore(run)
    finally:
        for k, v in saved.items():
            if v is None:
                ns.pop(k, None)
            else:
                ns[k] = v
        CF.argparse.ArgumentParser = saved_ap
    import re

    def zmax(es):
        m = es[0]
        for e in es[1:]:
            m = z3.If(e > m, e, m)
        return m
    for path, out in paths:
        stats["paths"] += 1
        if isinstance(out, Exception):
            stats["verdicts"].append({"ob": f"main() raised {type(out).__name__}: {out}", "v": "sat",
                                      "key": "clashfinder.main:csv-exception" if use_csv else "clashfinder.main:exception", "w": None})
            continue
        lines, files, reg = out
        # expected maxima straight from the listed clashes
        chain_max, res_max = {}, {}
        for k, ((ri, a), (rj, b)) in enumerate(lay):
            chain_max.setdefault((ri.chain, rj.chain), []).append(occ[k].e)
            res_max.setdefault((str(ri), str(rj)), []).append(occ[k].e)
        seen_chain, seen_res, atom_lines = set(), set(), 0
        for ln in lines:
            toks = re.findall(r"@\d+@", ln)
            mm = re.match(r"Clashes found (?:in chain (\S+)|between chains (\S+) and (\S+)) with maximum occupancy sum equal to", ln)
            if mm:
                key = (mm.group(1), mm.group(1)) if mm.group(1) else (mm.group(2), mm.group(3))
                seen_chain.add(key)
                if key not in chain_max or len(toks) != 1:
                    stats["verdicts"].append({"ob": f"unexpected chain line {ln!r}", "v": "sat", "key": "clashfinder.main:chain-line", "w": None})
                    continue
                v, m, dt = eng.prove(path, [reg[toks[0]] != zmax(chain_max[key])])
                w = None
                if v == "sat":
                    w = {"layout": layout_id, "n": ncl, "occ": [float(m.eval(o.e, model_completion=True).as_fraction()) for o in occ], "what": "chain"}
                stats["verdicts"].append({"ob": f"per-chain maximum printed for chains {key} equals the maximum over the listed clashes", "v": v,
                                          "key": "clashfinder.main:chain-maximum", "w": w})
                continue
            mm = re.match(r"\s+Clashes found (?:in residue (\S+)|between residues (\S+) and (\S+)) with maximum occupancy sum equal to", ln)
            if mm:
                key = (mm.group(1), mm.group(1)) if mm.group(1) else (mm.group(2), mm.group(3))
                seen_res.add(key)
                if key not in res_max or len(toks) != 1:
                    stats["verdicts"].append({"ob": f"unexpected residue line {ln!r}", "v": "sat", "key": "clashfinder.main:residue-line", "w": None})
                    continue
                v, m, dt = eng.prove(path, [reg[toks[0]] != zmax(res_max[key])])
                w = None
                if v == "sat":
                    w = {"layout": layout_id, "n": ncl, "occ": [float(m.eval(o.e, model_completion=True).as_fraction()) for o in occ], "what": "residue"}
                stats["verdicts"].append({"ob": f"per-residue maximum printed for {key} equals the maximum over the listed clashes", "v": v,
                                          "key": "clashfinder.main:residue-maximum", "w": w})
                continue
            if "Clashes found between atoms" in ln:
                atom_lines += 1
        if seen_chain != set(chain_max) or seen_res != set(res_max) or atom_lines != ncl:
            stats["verdicts"].append({"ob": f"printed report covers chains {sorted(seen_chain)}, residues {sorted(seen_res)}, {atom_lines} atom lines; "
                                      f"expected {sorted(chain_max)}, {sorted(res_max)}, {ncl}", "v": "sat", "key": "clashfinder.main:report-coverage", "w": None})
        if use_csv:
            text = files.get("/fake/out.csv")
            if text is None:
                stats["verdicts"].append({"ob": "--csv given but no CSV written", "v": "sat", "key": "clashfinder.main:csv-missing", "w": None})
            else:
                rows = [r for r in text.strip().split("\n")][1:]
                got = sorted((r.split(",")[3], r.split(",")[4], r.split(",")[5]) for r in rows)
                want_rows = []
                for k, ((ri, a), (rj, b)) in enumerate(lay):
                    want_rows.append((f"{ri} {ri.atoms[a].name}", f"{rj} {rj.atoms[b].name}", k))
                ok = len(got) == len(want_rows)
                if ok:
                    # match each listed clash to exactly one row with the same atoms and an occupancy token equal to its sum
                    used = set()
                    for a1, a2, k in want_rows:
                        hit = None
                        for idx, (g1, g2, tok) in enumerate(got):
                            if idx in used or g1 != a1 or g2 != a2 or tok not in reg:
                                continue
                            v, _, _ = eng.prove(path, [reg[tok] != occ[k].e])
                            if v == "unsat":
                                hit = idx
                                break
                        if hit is None:
                            ok = False
                            break
                        used.add(hit)
                stats["verdicts"].append({"ob": "CSV rows equal the listed clashes", "v": "unsat" if ok else "sat",
                                          "key": "clashfinder.main:csv-rows", "w": None if ok else {"layout": layout_id, "n": ncl, "rows": rows}})
    stats.update(queries=eng.nq, solver_s=round(eng.tq, 2), unknown=eng.unknown, wall_s=round(time.time() - t0, 2), reach_listed=1)
    return stats


REPLAY_MAIN = '''
import io, contextlib, re
import rnapolis.clashfinder as CF
from rnapolis.tertiary import Atom, Residue3D
from rnapolis.common import ResidueAuth
w = {w!r}
def mkres(chain, num, names):
    auth = ResidueAuth(chain, num, None, "G")
    return Residue3D(None, auth, 1, "G", tuple(Atom(None, None, auth, 1, nm, float(k), 0.0, 0.0, 1.0) for k, nm in enumerate(names)))
rA1 = mkres("A", 1, ["P", "OP1", "O3'"]); rA2 = mkres("A", 2, ["P", "OP1", "OP2"]); rB1 = mkres("B", 1, ["P", "C5'", "OP1"])
layouts = {{0: [((rA1, 0), (rA2, 0)), ((rA1, 1), (rA2, 1)), ((rA1, 2), (rA2, 2))],
           1: [((rA1, 0), (rA2, 0)), ((rA1, 1), (rB1, 1)), ((rA2, 2), (rA1, 2))],
           2: [((rA1, 0), (rA1, 1)), ((rA1, 2), (rA2, 1)), ((rA2, 0), (rA2, 2))]}}
lay = layouts[w["layout"]][:w["n"]]
clashes = [((ri, ri.atoms[a]), (rj, rj.atoms[b]), w["occ"][k]) for k, ((ri, a), (rj, b)) in enumerate(lay)]
class S3: residues = [rA1, rA2, rB1]
CF.read_3d_structure = lambda f, model=None: S3
CF.find_clashes = lambda residues, *o: list(clashes)
CF.open = lambda *a, **k: io.StringIO()
sys.argv = ["clashfinder", "/fake/1abc.cif"]
buf = io.StringIO()
with contextlib.redirect_stdout(buf): CF.main()
bad = False
for ln in buf.getvalue().split("\\n"):
    m = re.match(r"Clashes found (?:in chain (\\S+)|between chains (\\S+) and (\\S+)) with maximum occupancy sum equal to (\\S+)", ln)
    if m:
        key = (m.group(1), m.group(1)) if m.group(1) else (m.group(2), m.group(3))
        want = max(w["occ"][k] for k, ((ri, a), (rj, b)) in enumerate(lay) if (ri.chain, rj.chain) == key)
        print(ln, "| expected maximum", want)
        if abs(float(m.group(4)) - want) > 1e-12: bad = True
    m = re.match(r"\\s+Clashes found (?:in residue (\\S+)|between residues (\\S+) and (\\S+)) with maximum occupancy sum equal to (\\S+)", ln)
    if m:
        key = (m.group(1), m.group(1)) if m.group(1) else (m.group(2), m.group(3))
        want = max(w["occ"][k] for k, ((ri, a), (rj, b)) in enumerate(lay) if (str(ri), str(rj)) == key)
        if abs(float(m.group(4)) - want) > 1e-12: bad = True; print(ln, "| expected maximum", want)
sys.exit(1 if bad else 0)
'''

REPLAY_CSV = '''
import io, contextlib, tempfile, os
import rnapolis.clashfinder as CF
from rnapolis.tertiary import Atom, Residue3D
from rnapolis.common import ResidueAuth
auth1 = ResidueAuth("A", 1, None, "G"); auth2 = ResidueAuth("A", 2, None, "G")
r1 = Residue3D(None, auth1, 1, "G", (Atom(None, None, auth1, 1, "P", 0.0, 0.0, 0.0, 0.5),))
r2 = Residue3D(None, auth2, 1, "G", (Atom(None, None, auth2, 1, "P", 0.5, 0.0, 0.0, 0.5),))
class S3: residues = [r1, r2]
CF.read_3d_structure = lambda f, model=None: S3
d = tempfile.mkdtemp()
cif = os.path.join(os.environ["VERIF_REPO_SRC"], "..", "tests", "1ehz-assembly-1.cif")
out = os.path.join(d, "out.csv")
sys.argv = ["clashfinder", cif, "--csv", out]
try:
    with contextlib.redirect_stdout(io.StringIO()): CF.main()
except Exception as e:
    print("clashfinder --csv raised", type(e).__name__, e); sys.exit(1)
print(open(out).read()); sys.exit(0)
'''


def run(rep, tier):
    from vlib.core import Violation, ncpu
    specs = []
    # Part A: two atoms (typed/untyped names, same/different residue), three atoms on a line
    pairs2 = [("P", "OP1"), ("C4'", "N1"), ("O2'", "O2'"), ("P", "H5'"), ("MG", "C5"), ("N1", "N1")]
    for nm in pairs2:
        for layout in ((0, 1), (0, 0)):
            specs.append(("find", (2, layout, nm, 2)))
    specs.append(("find", (2, (0, 1), ("P", "P"), 0)))
    specs.append(("find", (2, (0, 1), ("O3'", "P"), 1, "icode")))
    specs.append(("find", (3, (0, 1, 1), ("OP1", "P", "OP1"), 0, "icode")))
    specs.append(("find", (2, (0, 1), ("O3'", "P"), 1, "desc")))
    specs.append(("find", (3, (0, 1, 1), ("OP1", "P", "OP1"), 0, "desc")))
    specs.append(("find", (2, (0, 1), ("C5", "O2'"), 1)))
    tri = [(("P", "OP1", "OP1"), (0, 0, 1)), (("C4'", "N1", "C5"), (0, 1, 1)), (("H5'", "P", "OP1"), (0, 0, 1)), (("MG", "O2'", "N1"), (0, 1, 1))]
    if tier != "quick":
        tri += [(("P", "P", "P"), (0, 1, 2)), (("O2'", "H5'", "O2'"), (0, 1, 1)), (("N1", "MG", "C4'"), (0, 0, 1))]
        for a, b in itertools.combinations_with_replacement(["C4'", "N1", "O2'", "P"], 2):
            specs.append(("find", (2, (0, 1), (a, b), 0)))
    for nm, layout in tri:
        specs.append(("find", (3, layout, nm, 2)))
    # Part B: main()
    for ncl in (1, 2, 3):
        for lay in (0, 1, 2):
            specs.append(("main", (ncl, lay, False)))
    specs.append(("main", (2, 1, True)))
    specs.append(("main", (3, 2, True)))
    from vlib.par import pmap, Crashed
    results = pmap(_dispatch, specs)
    for k, r in enumerate(results):
        if isinstance(r, Crashed):
            rep.harness_error(f"job {r.item} crashed: {r.why}")
            results[k] = {"name": str(r.item), "paths": 0, "queries": 0, "solver_s": 0.0, "verdicts": [], "unknown": 0, "wall_s": 0, "reach_listed": 1, "reach": 1, "reached": 1, "missing_classes": []}
    for (kind, sp), r in zip(specs, results):
        rep.add(states=r["paths"], transitions=r["queries"], solver_s=r["solver_s"])
        rep.cov.setdefault("groups", []).append({k: r.get(k) for k in ("name", "paths", "queries", "unknown", "wall_s")})
        if r.get("reach_listed"):
            rep.add(reachability_witnesses=1)
        elif kind == "find" and all(typed(n) for n in sp[2]):
            rep.harness_error(f"{r['name']}: no path lists a clash (vacuous harness)")
        for v in r["verdicts"]:
            rep.add(obligations=1)
            if v["v"] == "unsat":
                rep.add(discharged=1)
            elif v["v"] == "sat":
                rep.add(discharged=1)
                w = v["w"]
                if v["key"] == "clashfinder.main:csv-exception":
                    rep.violation(Violation(v["key"], v["ob"], REPLAY_CSV, witness="csv"))
                elif w is None:
                    rep.harness_error(f"{r['name']}: {v['ob']} (no replayable witness)")
                elif kind == "find":
                    rep.violation(Violation(v["key"], f"{v['ob']}; e.g. {w}", REPLAY_FIND.format(w=w), witness=w))
                else:
                    rep.violation(Violation(v["key"], f"{v['ob']}; e.g. {w}", REPLAY_MAIN.format(w=w), witness=w))
            else:
                rep.add(undecided=1)
        rep.sample({"group": r["name"], "paths": r["paths"], "first_obligations": [(v["ob"], v["v"]) for v in r["verdicts"][:2]]}, cap=6)
    rep.add(functions_encoded=["clashfinder.find_clashes", "clashfinder.AtomType.matches/radius", "clashfinder.main (report aggregation, CSV)",
                               "clashfinder.classify_clash"],
            bounds={"atoms": "2 atoms (14+ name/residue configurations) and 3 atoms on a line", "gaps": "0..4 A symbolic",
                    "occupancy": "symbolic in (0,1] or None per atom", "options": "all 32 combinations (symbolic)",
                    "main": "1..3 listed clashes over 3 residue/chain layouts, symbolic occupancy sums in (0,2]",
                    "outside": "more than 3 atoms; occupancy exactly 0.0 (the code's `or 1.0` treats it as absent; the statement is silent); "
                               "atom names whose first letter is C/N/O/P but which are other elements (CA, NA, ...)"},
            engines=["E2 symx + z3 (linear real arithmetic after the KD stub; sqrt as fresh variable)"],
            rule="states = explored paths; transitions = solver queries; obligations = per path and atom pair, margin form (1e-6)",
            stubs=["scipy KDTree -> exact all-pairs-within-r stub", "math.isclose -> symbolic", "main(): argparse, read_3d_structure, find_clashes, "
                   "read_metadata (contract: receives an open file), open, print"])
    rep.assume("KD-tree contract: query_pairs(r) returns exactly the index pairs with distance <= r",
               "floats modelled as reals with a 1e-6 undecided band around every threshold")


def _dispatch(spec):
    kind, sp = spec
    return job_find(sp) if kind == "find" else job_main(sp)
