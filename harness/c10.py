"""C10 — fitting to PDB limits is a structure-preserving renaming or a clean refusal (E2c: concretising mode; partial).

`fit_to_pdb` is ~30 pandas calls; it cannot be executed on proxies.  What can be done in this technique family is the
concretising mode (as for C06/C13): the bounded input space -- atom tables of 3-4 atoms whose chain id, residue number,
insertion code and serial range over values on both sides of every PDB limit -- is one z3 formula, enumerated completely by
AllSAT, and the real `parse_cif_atoms` -> `can_write_pdb` / `fit_to_pdb` -> `write_pdb` -> `parse_pdb_atoms` pipeline runs natively
(real pandas, real mmcif) on every model, judged by an independent oracle.  The refusal half (more than 62 chains, more than
99 999 atoms, more than 9 999 residues in a chain) needs tables beyond any bound here and is outside the claim.
"""
import sys

PID = "C10"
CHAINS = ["A", "AA", "B"]                # one- and multi-character chain ids
NUMS = [5, 12000]                        # residue numbers on both sides of 9999
ICODES = ["", "A"]
SERIAL_BASE = [0, 99998, 250000]         # serial = base + position (crosses 99999 inside a table for base 99998)
NAMES = ["P", "C1'", "N9", "C4"]


def emit_cif(table, serial_base):
    attrs = ["group_PDB", "id", "type_symbol", "label_atom_id", "label_alt_id", "label_comp_id", "label_asym_id", "label_entity_id", "label_seq_id",
             "pdbx_PDB_ins_code", "Cartn_x", "Cartn_y", "Cartn_z", "occupancy", "B_iso_or_equiv", "pdbx_formal_charge", "auth_seq_id", "auth_comp_id",
             "auth_asym_id", "auth_atom_id", "pdbx_PDB_model_num"]
    out = ["data_verif", "loop_"] + ["_atom_site." + a for a in attrs]
    for k, (c, n, i) in enumerate(table):
        nm = NAMES[k]
        q = '"%s"' % nm if "'" in nm else nm
        out.append(" ".join(["ATOM", str(serial_base + k + 1), nm[0], q, ".", "G", CHAINS[c], "1", str(k + 1), ICODES[i] or "?", "%.3f" % (1.0 + 3 * k), "2.000",
                             "3.000", "1.00", "0.00", "?", str(NUMS[n]), "G", CHAINS[c], q, "1"]))
    return "\n".join(out) + "\n#\n"


def body(table, sb):
    from harness.e1_common import log, known_keys
    import pandas as pd
    from rnapolis.parser_v2 import parse_cif_atoms, parse_pdb_atoms, can_write_pdb, fit_to_pdb, write_pdb
    from rnapolis.tertiary_v2 import Structure
    table = [tuple(t) for t in table]
    base = SERIAL_BASE[sb]
    problems = []
    n = len(table)
    try:
        df = parse_cif_atoms(emit_cif(table, base))
        before = df.copy()
        fits = all(len(CHAINS[c]) == 1 and NUMS[r] <= 9999 for c, r, _ in table) and base + n <= 99999
        if bool(can_write_pdb(df)) != fits:
            problems.append(f"can_write_pdb says {can_write_pdb(df)}, the limits say {fits}")
        try:
            out = fit_to_pdb(df)
        except ValueError as e:
            out = None
            problems.append(f"a table of {n} atoms was refused: {e}")
        if not before.equals(df) or before.attrs != df.attrs:
            problems.append("fit_to_pdb changed its argument")
        if out is not None:
            if fits:
                if out is not df and not (out.equals(before) and out.attrs == before.attrs):
                    problems.append("a table that already fits was not returned unchanged")
            else:
                # limits
                ser = [int(x) for x in out["serial"]]
                ch = [str(x) for x in out["chainID"]]
                rs = [int(x) for x in out["resSeq"]]
                if max(ser) > 99999 or any(len(c) != 1 for c in ch) or max(rs) > 9999 or min(rs) < -999:
                    problems.append(f"fitted table violates PDB limits: serials {ser}, chains {ch}, residue numbers {rs}")
                if ser != sorted(ser) or len(set(ser)) != n:
                    problems.append(f"serials {ser} are not increasing and unique")
                # atoms keep order, names, coordinates
                if [str(x) for x in out["name"]] != NAMES[:n] or [float(x) for x in out["x"]] != [1.0 + 3 * k for k in range(n)]:
                    problems.append("atom order / names / coordinates changed")
                # one-to-one renaming that preserves grouping
                old_c = [CHAINS[c] for c, _, _ in table]
                old_r = [(CHAINS[c], NUMS[r], ICODES[i]) for c, r, i in table]
                new_r = list(zip(ch, rs))
                for a in range(n):
                    for b in range(a + 1, n):
                        if (old_c[a] == old_c[b]) != (ch[a] == ch[b]):
                            problems.append(f"chain renaming is not one-to-one: {old_c} -> {ch}")
                        if (old_r[a] == old_r[b]) != (new_r[a] == new_r[b]):
                            problems.append(f"residue renaming does not preserve grouping: {old_r} -> {new_r}")
                if out.attrs.get("format") != "PDB":
                    problems.append("fitted table is not marked as PDB")
            # the fitted table can be written as PDB and read back to the same structure
            text = write_pdb(out)
            back = parse_pdb_atoms(text)
            want_groups = []
            for k, (c, r, i) in enumerate(table):
                key = (CHAINS[c], NUMS[r], ICODES[i])
                if want_groups and want_groups[-1][0] == key:
                    want_groups[-1][1].append(NAMES[k])
                else:
                    want_groups.append((key, [NAMES[k]]))
            got_groups = [list(r.atoms["name"]) for r in Structure(back).residues]
            if sorted(got_groups) != sorted(g for _, g in want_groups) or len(back) != n:
                problems.append(f"written and re-read structure groups atoms as {got_groups}, the table as {[g for _, g in want_groups]}")
            bad = [l for l in text.split("\n") if l.startswith(("ATOM", "HETATM", "TER")) and len(l) != 80]
            if bad:
                problems.append(f"written PDB has lines that are not 80 columns: {bad[:1]}")
    except Exception as e:  # noqa: BLE001
        problems.append(f"exception {type(e).__name__}: {e}")
    problems = sorted(set(problems))
    keys = ["parser_v2.fit_to_pdb"] if problems else []
    ok = all(k in known_keys(PID) for k in keys)
    log({"p": [[list(t) for t in table], sb], "problems": problems[:3], "keys": keys, "kind": "fit"})
    return ok


LIMIT_KINDS = ["chains", "residues", "atoms"]


def limits_table(kind, a, b):
    """(rows, must) for the refusal half: rows = [(group, chain, resnum, atom name, residue name)], must = 'fit' | 'refuse' | 'either'"""
    rows = []
    if kind == 0:       # 61..64 chains with two-character ids, one atom each
        n = 61 + a
        ids = [x + y for x in "ABCDEFGH" for y in "abcdefgh"][:n]
        rows = [("ATOM", c, 1, "P", "G") for c in ids]
        return rows, ("fit" if n <= 62 else "refuse")
    if kind == 1:       # one chain of 9 998..10 001 single-atom residues numbered from 5 000 (so numbers above 9 999 occur)
        n = 9998 + a
        rows = [("ATOM", "AA", 5000 + i, "P", "G") for i in range(n)]
        return rows, ("fit" if n <= 9999 else "refuse")
    # kind 2: two chains, 99 996 + a atoms (a = 0..2: atoms + 2 chains = 99 998..100 000), b = 0: chains contiguous, b = 1: the last 60 atoms alternate between the chains
    n = 99996 + a
    tail = 60 if b else 0
    half = (n - tail) // 2
    for ci, c in enumerate(("AA", "BB")):
        cnt = half if ci == 0 else (n - tail - half)
        for i in range(cnt):
            rows.append(("ATOM", c, 1 + i // 20, "C%d" % (i % 20), "G"))
    for w in range(tail):
        rows.append(("HETATM", "AA" if w % 2 == 0 else "BB", 7000 + w, "O", "HOH"))
    return rows, ("refuse" if n + 2 > 99999 else "either")


def body_limits(kind, a, b):
    """the refusal half on tables at the PDB limits (real pandas, natively)"""
    from harness.e1_common import log, known_keys
    import warnings
    warnings.filterwarnings("ignore")
    from rnapolis.parser_v2 import parse_cif_atoms, fit_to_pdb, write_pdb, parse_pdb_atoms
    rows, must = limits_table(kind, a, b)
    attrs = ["group_PDB", "id", "type_symbol", "label_atom_id", "label_alt_id", "label_comp_id", "label_asym_id", "label_entity_id", "label_seq_id",
             "pdbx_PDB_ins_code", "Cartn_x", "Cartn_y", "Cartn_z", "occupancy", "B_iso_or_equiv", "pdbx_formal_charge", "auth_seq_id", "auth_comp_id",
             "auth_asym_id", "auth_atom_id", "pdbx_PDB_model_num"]
    text = "\n".join(["data_verif", "loop_"] + ["_atom_site." + x for x in attrs] +
                     [f"{g} {i} {nm[0]} {nm} . {rn} {c} 1 {r} ? {(i % 9000) * 0.1:.3f} {(i % 7000) * 0.1:.3f} {(i % 5000) * 0.1:.3f} 1.00 0.00 ? {r} {rn} {c} {nm} 1"
                      for i, (g, c, r, nm, rn) in enumerate(rows, start=1)]) + "\n#\n"
    problems = []
    n = len(rows)
    try:
        df = parse_cif_atoms(text)
        if len(df) != n:
            problems.append(f"parse_cif_atoms returned {len(df)} of {n} atoms")
        try:
            out = fit_to_pdb(df)
        except ValueError as e:
            out = None
            if must == "fit":
                problems.append(f"a table that has a fit was refused: {e}")
        if out is not None:
            if must == "refuse":
                problems.append(f"a table without a fit ({LIMIT_KINDS[kind]}, {n} atoms) was not refused")
            ser = out["serial"].astype(int).tolist()
            ch = out["chainID"].astype(str).tolist()
            rs = out["resSeq"].astype(int).tolist()
            if max(ser) > 99999 or min(ser) < 1 or any(len(c) != 1 for c in set(ch)) or max(rs) > 9999 or min(rs) < -999:
                problems.append(f"fitted table violates PDB limits: max serial {max(ser)}, chains {sorted(set(ch))[:5]}..., residue numbers {min(rs)}..{max(rs)}")
            if any(x >= y for x, y in zip(ser, ser[1:])):
                problems.append("serials are not increasing")
            if out["name"].astype(str).tolist() != [r[3] for r in rows] or [round(float(v), 3) for v in out["x"].tolist()[:50]] != [round((i % 9000) * 0.1, 3) for i in range(1, min(n, 50) + 1)]:
                problems.append("atom order / names / coordinates changed")
            fwd, bwd, rf, rb = {}, {}, {}, {}
            for (g, c, r, nm, rn), c2, r2 in zip(rows, ch, rs):
                if fwd.setdefault(c, c2) != c2 or bwd.setdefault(c2, c) != c:
                    problems.append(f"chain renaming is not one-to-one at {c} -> {c2}")
                    break
                if rf.setdefault((c, r), (c2, r2)) != (c2, r2) or rb.setdefault((c2, r2), (c, r)) != (c, r):
                    problems.append(f"residue renaming does not preserve grouping at {(c, r)} -> {(c2, r2)}")
                    break
            if n <= 20000:
                back = parse_pdb_atoms(write_pdb(out))
                if len(back) != n:
                    problems.append(f"written and re-read table has {len(back)} of {n} atoms")
    except Exception as e:  # noqa: BLE001
        problems.append(f"exception {type(e).__name__}: {e}")
    problems = sorted(set(problems))
    keys = ["parser_v2.fit_to_pdb:limits"] if problems else []
    ok = all(k in known_keys(PID) for k in keys)
    log({"p": ["limits", kind, a, b], "problems": problems[:3], "keys": keys, "kind": "limits"})
    return ok


def replay(rec):
    import harness.e1_common as ec
    saved = ec.known_keys
    ec.known_keys = lambda pid: set()
    try:
        if rec["p"][0] == "limits":
            return body_limits(*rec["p"][1:])
        # the enumeration runs many tables in one process: a failure may need an earlier call (state kept between calls).  The table is
        # evaluated alone and after every 2-atom table of the family as predecessor, each time in a forked copy of this fresh interpreter.
        import os

        def forked(pred):
            pid = os.fork()
            if pid == 0:
                try:
                    if pred is not None:
                        body(pred[0], pred[1])
                    os._exit(0 if body(rec["p"][0], rec["p"][1]) else 1)
                except BaseException:  # noqa: BLE001
                    os._exit(2)
            return os.waitpid(pid, 0)[1] >> 8
        if forked(None) == 1:
            return False
        cands, _, _ = inputs(2)
        for t, sb in cands:
            if forked((t, sb)) == 1:
                print("fails after an earlier call on", [list(x) for x in t], "serial base", SERIAL_BASE[sb])
                return False
        return True
    finally:
        ec.known_keys = saved


def inputs(natoms):
    import z3
    from vlib import allsat
    vs, cons = [], []
    for k in range(natoms):
        c, n, i = z3.Int(f"c{k}"), z3.Int(f"n{k}"), z3.Int(f"i{k}")
        vs += [c, n, i]
        cons += [c >= 0, c < len(CHAINS), n >= 0, n < len(NUMS), i >= 0, i < len(ICODES)]

    def same(a, b):
        return z3.And(*[vs[3 * a + t] == vs[3 * b + t] for t in range(3)])

    def same_chain(a, b):
        return vs[3 * a] == vs[3 * b]
    for a in range(natoms):
        for b in range(a + 2, natoms):
            for m in range(a + 1, b):
                cons.append(z3.Implies(same(a, b), same(a, m)))            # residues contiguous
                cons.append(z3.Implies(same_chain(a, b), same_chain(a, m)))  # chains contiguous
    S = z3.Int("sb")
    cons += [S >= 0, S < len(SERIAL_BASE)]
    models, nq, dt = allsat.allsat(vs + [S], cons)
    return [([tuple(m[3 * k:3 * k + 3]) for k in range(natoms)], m[-1]) for m in models], nq, dt


def run(rep, tier):
    from vlib import allsat, e1
    parts = []
    for nat in ([2, 3] if tier == "quick" else [2, 3, 4]):
        inp, nq, dt = inputs(nat)
        rep.add(transitions=nq, solver_s=dt)
        pt = allsat.run_family(f"fit_{nat}atoms", "harness.c10", "body", inp,
                               [f"{nat} atoms; chain in {CHAINS}, residue number in {NUMS}, insertion code in {ICODES}, serial base in {SERIAL_BASE}",
                                "chains and residues contiguous"], expected=None, chunksize=16)
        parts.append(pt)
    # refusal half: tables at the limits; the parameter space is one formula, enumerated by AllSAT
    import z3
    K, A, B_ = z3.Int("kind"), z3.Int("a"), z3.Int("b")
    cons = [K >= 0, K <= 2, A >= 0, A <= 3, B_ >= 0, B_ <= 1, z3.Implies(K < 2, B_ == 0), z3.Implies(K == 2, A <= (0 if tier == "quick" else 2))]
    models, nq, dt = allsat.allsat([K, A, B_], cons)
    rep.add(transitions=nq, solver_s=dt)
    parts.append(allsat.run_family("limits", "harness.c10", "body_limits", [tuple(m) for m in models],
                                   ["61..64 two-character chains | 9 998..10 001 residues in one chain | 99 996" + ("" if tier == "quick" else "..99 998") + " atoms in two chains, contiguous or alternating tail"],
                                   expected=(10 if tier == "quick" else 14), chunksize=1))
    e1.collect(rep, parts, "harness.c10")
    rep.add(functions_encoded=["parser_v2.can_write_pdb", "parser_v2.fit_to_pdb", "parser_v2.write_pdb", "parser_v2.parse_pdb_atoms", "parser_v2.parse_cif_atoms",
                               "tertiary_v2.Structure.residues"],
            bounds={"tables": "2-3 (quick) / 2-4 atoms; values on both sides of every PDB limit (one- and multi-character chain ids, residue numbers 5 / 9999 / 12000, "
                    "serials crossing 99999)", "limits": "61-64 chains, 9 998-10 001 residues in a chain, 99 996 (thorough: ..99 998) atoms in two chains with contiguous or alternating chains", "outside": "PDB-format input tables, "
                    "everything pandas does on larger frames"},
            engines=["z3 AllSAT over the table formula (concretising mode); native execution with real pandas and mmcif"], exhaustive=True,
            rule="states = distinct tables (AllSAT models); transitions = executions + AllSAT queries; obligation = family",
            stubs=[])
    rep.assume("every table is fitted in a process that has fitted other tables before (pool workers); a counterexample is replayed in a fresh interpreter, "
               "alone and after every 2-atom table of the family as predecessor")
    rep.assume("partial: the renaming half on small tables; a ValueError on a 2-4 atom table counts as a violation (such a table always has a fit)",
               "refusal half: more than 62 chains, more than 9 999 residues in a chain, atoms + chains above 99 999 must be refused; 62 chains / 9 999 residues must be fitted")
