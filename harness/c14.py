"""C14 — outputs are a deterministic function of the input (hash order as a symbolic schedule; partial).

`set`/`frozenset` in the namespaces of rnapolis.common and rnapolis.tertiary are replaced by a
stand-in whose iteration order -- for sets holding anything whose hash depends on string hashing or
object identity -- is an arbitrary permutation selected by symbolic integers (the "schedule").
Sets of ints / tuples of ints keep CPython's real order, which does not vary with PYTHONHASHSEED.
CrossHair explores pairing tables and schedules; every output must be identical under every schedule.
A counterexample is replayed by starting fresh interpreters with PYTHONHASHSEED 0..31.
"""
import itertools

from harness.pairing_lib import *

PID = "C14"


class Sched:
    choices = []
    pos = 0
    used = 0
    trace = []      # concrete permutation index taken at each choice point (decided by branches, never by realising the choice)


def _det(x):
    if isinstance(x, bool) or x is None:
        return True
    if isinstance(x, int):
        return True
    if isinstance(x, (tuple, frozenset)):
        return all(_det(y) for y in x)
    if isinstance(x, NDFrozen):
        return all(_det(y) for y in x.items)
    return False


_real_set = set


class NDSet:
    """stand-in for set: iteration order of hash-randomised elements is an arbitrary permutation"""

    def __init__(self, it=()):
        self.items = []
        for x in it:
            self.add(x)

    def add(self, x):
        if x not in self.items:
            self.items.append(x)

    def update(self, *its):
        for it in its:
            for x in it:
                self.add(x)

    def discard(self, x):
        if x in self.items:
            self.items.remove(x)

    def remove(self, x):
        self.items.remove(x)

    def __contains__(self, x):
        return x in self.items

    def __len__(self):
        return len(self.items)

    def __bool__(self):
        return bool(self.items)

    def __eq__(self, o):
        return isinstance(o, (NDSet, NDFrozen)) and len(o.items) == len(self.items) and all(x in o.items for x in self.items)

    __hash__ = None

    def _order(self):
        k = len(self.items)
        if k < 2:
            return list(self.items)
        if all(_det(x) for x in self.items):
            try:
                return list(_real_set(self.items))      # CPython's real, seed-independent order
            except TypeError:
                return list(self.items)
        Sched.used += 1
        if Sched.pos < len(Sched.choices):
            c = Sched.choices[Sched.pos]
            Sched.pos += 1
        else:
            c = 0
        if k <= 4:
            perms = list(itertools.permutations(range(k)))
            sel = len(perms) - 1                          # fork by comparison (one path per permutation), no modulo
            for i in range(len(perms) - 1):
                if c == i:
                    sel = i
                    break
            Sched.trace.append(sel)
            return [self.items[i] for i in perms[sel]]
        r = 2 * k - 1                                     # larger sets: rotations and reversed rotations
        for i in range(2 * k - 1):
            if c == i:
                r = i
                break
        Sched.trace.append(r)
        idx = list(range(k))
        idx = idx[r % k:] + idx[:r % k]
        if r >= k:
            idx.reverse()
        return [self.items[i] for i in idx]

    def __iter__(self):
        return iter(self._order())

    def intersection(self, *os):
        return NDSet([x for x in self.items if all(x in o for o in os)])

    def union(self, *os):
        r = NDSet(self.items)
        r.update(*os)
        return r

    def difference(self, *os):
        return NDSet([x for x in self.items if not any(x in o for o in os)])

    def copy(self):
        return NDSet(self.items)

    __and__ = intersection
    __or__ = union
    __sub__ = difference

    def __repr__(self):
        return "NDSet(%r)" % (self.items,)


class NDFrozen(NDSet):
    def __hash__(self):
        h = 0
        for x in self.items:
            h ^= hash(x)
        return h

    def add(self, x):
        if x not in self.items:
            self.items.append(x)


def install():
    import rnapolis.common as C
    C.set = NDSet
    C.frozenset = NDFrozen


def uninstall():
    import rnapolis.common as C
    for n in ("set", "frozenset"):
        if n in C.__dict__:
            del C.__dict__[n]


def outputs(pc, seq, ndb):
    from rnapolis.common import BpSeq, Entry
    from harness.c07 import flatten
    n = len(pc)
    b = BpSeq([Entry(i + 1, seq[i], pc[i]) for i in range(n)])
    b.__dict__["dot_bracket"] = ndb
    out = [str(b), b.fcfs.structure, [d.structure for d in b.all_dot_brackets]]
    out.append([str(e) for grp in b.elements for e in grp])
    out.append(_entries_text(b.without_isolated()))
    out.append(_entries_text(b.without_pseudoknots()))
    return out


def _entries_text(b):
    return str(b)


def body(p, choices):
    from harness.e1_common import realize, deep_realize, NoTracing, log, known_keys
    from rnapolis.common import BpSeq, Entry
    n = realize(len(p))
    seq = "".join("ACGU"[i % 4] for i in range(n))
    pc = [realize(x) for x in p]
    problems = []
    with NoTracing():
        ndb = BpSeq([Entry(i + 1, seq[i], pc[i]) for i in range(n)]).dot_bracket
        ref = outputs(pc, seq, ndb)          # the real interpreter's answer (real sets, this process's hash seed)
    install()
    try:
        Sched.choices, Sched.pos, Sched.used, Sched.trace = choices, 0, 0, []
        got = outputs(p, seq, ndb)
        used = Sched.used
        same = (ref == got)
    except Exception as e:  # noqa: BLE001
        problems.append((f"exception {type(e).__name__}: {e}", "exception"))
        same, used = True, 0
    finally:
        uninstall()
    same = realize(same)
    with NoTracing():
        cc = list(Sched.trace)
        if not same:
            got = deep_realize(got)
            names = ["BPSEQ text", "fcfs", "all_dot_brackets (ordered list)", "element texts", "without_isolated", "without_pseudoknots"]
            diff = [names[i] for i in range(len(ref)) if ref[i] != got[i]]
            problems.append((f"{diff} depend on set iteration order: {ref[2]} vs {got[2]}" if "all_dot_brackets (ordered list)" in diff
                             else f"{diff} depend on set iteration order", "order:" + (diff[0].split(" ")[0] if diff else "?")))
        keys = sorted({f"BpSeq:{k}" for _, k in problems})
        ok = all(k in known_keys(PID) for k in keys)
        log({"p": [pc, cc], "id": [pc, cc], "problems": [m for m, _ in problems][:3], "keys": keys, "kind": "sched", "choice_points": used})
    return ok


REPLAY_SEEDS = '''
import subprocess, json
pc = {pc!r}
code = """
import sys, os, json, logging
sys.path.insert(0, os.environ["VERIF_REPO_SRC"]); logging.disable(logging.CRITICAL)
from rnapolis.common import BpSeq, Entry
pc = json.loads(sys.argv[1]); n = len(pc); seq = "".join("ACGU"[i % 4] for i in range(n))
b = BpSeq([Entry(i + 1, seq[i], pc[i]) for i in range(n)])
print(json.dumps([str(b), b.fcfs.structure, [d.structure for d in b.all_dot_brackets], [str(e) for g in b.elements for e in g],
      str(b.without_isolated()), str(b.without_pseudoknots())]))
"""
outs = set()
for seed in range(32):
    env = dict(os.environ); env["PYTHONHASHSEED"] = str(seed)
    r = subprocess.run([sys.executable, "-c", code, json.dumps(pc)], capture_output=True, text=True, env=env)
    outs.add(r.stdout)
print(len(outs), "distinct outputs over PYTHONHASHSEED 0..31 for", pc)
sys.exit(1 if len(outs) > 1 else 0)
'''


def run(rep, tier):
    from vlib import e1
    from vlib.core import Violation
    from vlib.e1 import Partition
    Nmax = 6 if tier == "quick" else 8
    T = 900 if tier == "quick" else 3000
    NC = 2 if tier == "quick" else 3
    parts = []
    for n in range(1, Nmax + 1):
        pr = list(all_pairings(n))
        depth = 0 if n <= 4 else (1 if n <= 6 else 2)
        for pref, cnt in e1.prefix_partitions(n, depth, pr):
            pres = [f"len(p) == {n}", f"len(choices) == {NC}"] + [f"p[{i}] == {v}" for i, v in enumerate(pref)] + \
                   ["valid(p)", "all(0 <= c < 24 for c in choices)"]
            parts.append(Partition(f"n{n}_" + "_".join(map(str, pref)), pres, sig="p: List[int], choices: List[int]", call="p, choices",
                                   expected=None))
    parts.sort(key=lambda x: x.name, reverse=True)
    e1.run("harness.c14", parts, per_condition_timeout=T)
    # violations of this property are replayed through real hash seeds, not through the stand-in
    e1.collect(rep, parts, "harness.c14", make_violation=lambda r: Violation(
        r["keys"][0], r["problems"][0], REPLAY_SEEDS.format(pc=r["p"][0]), witness=r["p"][0]))
    cps = sum(r.get("choice_points", 0) for pt in parts for r in pt.records)
    rep.cov["choice_points_reached"] = cps
    rep.add(functions_encoded=["BpSeq.__str__", "BpSeq.fcfs", "BpSeq.all_dot_brackets", "BpSeq.elements", "BpSeq.without_isolated",
                               "BpSeq.without_pseudoknots"],
            bounds={"pairings N<=": Nmax, "schedule": f"{NC} choice points, every permutation of sets with <= 4 hash-randomised elements "
                    "(rotations/reversals beyond)", "outside": "annotator / parser outputs (scipy KD-tree, pandas), orjson and CSV serialisation, "
                    "Mapping2D3D (see C06 structures in thorough mode)"},
            engines=["E1 CrossHair"], exhaustive=True,
            rule="states = distinct (pairing, consumed schedule prefix); transitions = path executions; obligation = partition",
            stubs=["set / frozenset in rnapolis.common replaced by an order-nondeterministic stand-in (the schedule is symbolic)",
                   "dot_bracket cache slot filled natively"])
    rep.assume("iteration order of a set whose elements are ints / tuples / frozensets of ints does not depend on PYTHONHASHSEED",
               "iteration order of any other set is arbitrary",
               "partial: only the secondary-structure outputs of rnapolis.common are covered")


# ======================================================================================================
# extensions: Mapping2D3D under arbitrary set order (E2 schedule), repeated calls in one process
# ======================================================================================================
def job_mapping(entries):
    """the real Mapping2D3D with `set` in rnapolis.tertiary replaced by the order-nondeterministic stand-in; the schedule is a
    symbolic integer per choice point, concretised by the E2 explorer (all permutations of sets with <= 4 elements)"""
    import sys
    sys.path.insert(0, "/verif")
    import z3
    from symx.engine import Engine
    import rnapolis.tertiary as T
    from rnapolis.tertiary import Mapping2D3D, Structure3D
    from harness import c06
    c06._fast_solver()
    eng = Engine(timeout_ms=10000)
    counter = {"n": 0}

    class ESet(NDSet):
        def _order(self):
            k = len(self.items)
            if k < 2 or all(_det(x) for x in self.items):
                try:
                    return list(_real_set(self.items))
                except TypeError:
                    return list(self.items)
            perms = list(itertools.permutations(range(k))) if k <= 4 else [tuple(range(k)), tuple(reversed(range(k)))]
            counter["n"] += 1
            c = eng.int(f"order{counter['n']}", 0, len(perms) - 1)
            return [self.items[i] for i in perms[c.concretize()]]
    residues = c06.structures()["contiguous"]
    T.set = ESet
    try:
        def run():
            counter["n"] = 0
            m = Mapping2D3D(Structure3D(list(residues)), c06.build_pairs(residues, entries), [], False)
            return [str(m.bpseq), m.dot_bracket, m.extended_dot_bracket, list(m.all_dot_brackets)]
        paths = eng.explore(run, maxpaths=2000)
    finally:
        del T.__dict__["set"]
    outs = {}
    for path, out in paths:
        outs.setdefault(repr(out), 0)
        outs[repr(out)] += 1
    return {"entries": [list(e) for e in entries], "paths": len(paths), "distinct_outputs": len(outs), "queries": eng.nq, "solver_s": round(eng.tq, 3),
            "choice_points": counter["n"]}


REPLAY_MAPPING = '''
import subprocess, json
entries = {entries!r}
code = """
import sys, os, json, logging
sys.path.insert(0, os.environ["VERIF_REPO_SRC"]); sys.path.insert(0, {verif!r}); logging.disable(logging.CRITICAL)
from harness import c06
from rnapolis.tertiary import Mapping2D3D, Structure3D
c06._fast_solver()
entries = [tuple(e) for e in json.loads(sys.argv[1])]
res = c06.structures()["contiguous"]
m = Mapping2D3D(Structure3D(list(res)), c06.build_pairs(res, entries), [], False)
print(json.dumps([str(m.bpseq), m.dot_bracket, m.extended_dot_bracket, list(m.all_dot_brackets)]))
"""
outs = set()
for seed in range(32):
    env = dict(os.environ); env["PYTHONHASHSEED"] = str(seed)
    r = subprocess.run([sys.executable, "-c", code, json.dumps(entries)], capture_output=True, text=True, env=env)
    outs.add(r.stdout)
print(len(outs), "distinct outputs over PYTHONHASHSEED 0..31 for", entries)
sys.exit(1 if len(outs) > 1 else 0)
'''

REPLAY_REPEAT = '''
import tempfile, os
from rnapolis.adapter import parse_fr3d_output
d = tempfile.mkdtemp(); p = os.path.join(d, "fr3d.txt")
open(p, "w").write("1ABC|1|A|G|1\\tcWW\\t1ABC|1|A|C|10\\t0\\n1ABC|1|A|U|3\\ts35\\t1ABC|1|A|A|4\\t\\n")
c = lambda r: (len(r.basePairs), len(r.stackings), len(r.baseRiboseInteractions), len(r.basePhosphateInteractions), len(r.otherInteractions))
a = c(parse_fr3d_output(p)); b = c(parse_fr3d_output(p))
print("first call", a, "second call", b); sys.exit(1 if a != b else 0)
'''

_run_common = run


def run(rep, tier):   # noqa: F811
    from vlib.core import Violation, VERIF
    from vlib.par import pmap, Crashed
    _run_common(rep, tier)
    # Mapping2D3D: pair lists in which one residue takes part in two canonical pairs (the conflict resolution iterates a set)
    from harness import c06
    ents, nq, dt = c06.enumerate_inputs(2, 1, 1)
    rep.add(transitions=nq, solver_s=dt)
    conflicting = [e for e in ents if len({e[0][0], e[0][1]} & {e[1][0], e[1][1]}) == 1 and 4 not in (e[0][0], e[0][1], e[1][0], e[1][1])]
    if tier == "quick":
        conflicting = conflicting[::3]
    results = pmap(job_mapping, conflicting)
    n = 0
    for e, r in zip(conflicting, results):
        if isinstance(r, Crashed):
            rep.harness_error(f"mapping job {e} crashed: {r.why}")
            continue
        n += 1
        rep.add(states=r["paths"], transitions=r["queries"], solver_s=r["solver_s"], obligations=1, discharged=1)
        rep.cov["choice_points_reached"] = rep.cov.get("choice_points_reached", 0) + r["choice_points"]
        if r["distinct_outputs"] > 1:
            rep.violation(Violation("Mapping2D3D:order", f"Mapping2D3D outputs depend on set iteration order for pair list {r['entries']} "
                                    f"({r['distinct_outputs']} different outputs over {r['paths']} schedules)",
                                    REPLAY_MAPPING.format(entries=r["entries"], verif=VERIF), witness=r["entries"]))
    rep.sample({"mapping_inputs": n, "example": [list(x) for x in conflicting[0]] if conflicting else None})
    # repeated calls in one process (history independence of the FR3D importer): the symbolic-line harness of C19 calls it twice
    from harness import c19
    r = pmap(c19.job_file, [0])[0]
    if isinstance(r, Crashed):
        rep.harness_error(f"repeat job crashed: {r.why}")
    else:
        rep.add(states=r["paths"], transitions=r["queries"], solver_s=r["solver_s"])
        for v in r["verdicts"]:
            if v["key"].endswith(":repeat"):
                rep.add(obligations=1, discharged=1)
                if v["v"] == "sat":
                    rep.violation(Violation("adapter.parse_fr3d_output:repeat", v["ob"], REPLAY_REPEAT, witness="repeat"))
            elif v["ob"] == "two calls agree":
                rep.add(obligations=1, discharged=1)
    rep.add(functions_encoded=["Mapping2D3D.bpseq / _generated_bpseq_data (conflict resolution over sets)", "Mapping2D3D.dot_bracket / extended_dot_bracket / "
                               "all_dot_brackets", "adapter.parse_fr3d_output (two calls in one process)"],
            stubs=["set in rnapolis.tertiary replaced by the order-nondeterministic stand-in (schedule explored by the E2 engine)"],
            engines=["E2 symx (schedule integers concretised by forking)"])
    rep.cov["bounds"]["mapping"] = "pair lists of 2 cWW entries over 4 residues in which one residue has two partners; every permutation of every set of <= 4 elements"
    rep.cov["bounds"]["repeat"] = "FR3D listing of 9 lines (one symbolic) imported twice in one process"


# ======================================================================================================
# extensions 2: independence of the process environment and of the call history
# ======================================================================================================
ENV_ALPHABET = "a7_"
ENV_INPUTS = {"pdb": "tests/488d.pdb", "cif": "tests/1ehz-assembly-1.cif", "adapter": "tests/184D.cif"}
ENV_TOOL = {"pdb": ("rnapolis.annotator", []), "cif": ("rnapolis.annotator", []),
            "adapter": ("rnapolis.adapter", ["--external", "tests/184D-fr3d.txt", "--tool", "fr3d"])}


def job_env(spec):
    """the real annotator.main() on a real input with every output option; the name of the temporary copy made by util.handle_input_file
    is a symbolic string (3 symbolic characters).  The name is realised only where it reaches a C boundary (os.fspath / str); all outputs
    must be identical on every path -- when the name is never realised there is one path and the outputs are a constant function of it."""
    kind, dots = spec
    import sys
    sys.path.insert(0, "/verif")
    import io, os, contextlib, tempfile, shutil, types, logging, time
    import z3
    from symx.engine import Engine
    from symx import bstr as B
    from vlib import frame
    import importlib
    AN = importlib.import_module(ENV_TOOL[kind][0])
    import rnapolis.util as U
    import rnapolis.parser as PR
    logging.disable(logging.CRITICAL)
    c06 = __import__("harness.c06", fromlist=["x"])
    c06._fast_solver()
    eng = Engine(timeout_ms=10000)
    eng.realize_on_str = True
    from vlib.core import REPO_SRC
    root = os.path.dirname(REPO_SRC)
    src = os.path.join(root, ENV_INPUTS[kind])
    extra = [os.path.join(root, a) if a.startswith("tests/") else a for a in ENV_TOOL[kind][1]]
    ext = os.path.splitext(src)[1]
    sym = B.bvar(eng, "tmpname", 3, minlen=3, charset=ENV_ALPHABET)
    real_paths = {}

    class FakeTmp(io.StringIO):
        def __init__(self, suffix):
            super().__init__()
            self.name = B.BStr.const(eng, "/tmp/tmp") + sym + B.BStr.const(eng, "q0x1z" + (suffix or ""))
            real_paths[id(self.name)] = self

    real_adapter = PR.IoAdapterPy

    class Adapter:
        """contract stub: readFile(name) parses the text of the file of that name"""
        def readFile(self, name, *a, **k):
            f = real_paths.get(id(name))
            if f is None:
                return real_adapter().readFile(name, *a, **k)
            with tempfile.NamedTemporaryFile("wt", suffix=ext, delete=False) as t:
                t.write(f.getvalue())
            try:
                return real_adapter().readFile(t.name, *a, **k)
            finally:
                os.unlink(t.name)
    saved = (U.tempfile, PR.IoAdapterPy, sys.argv)
    U.tempfile = types.SimpleNamespace(NamedTemporaryFile=lambda mode="w", suffix=None, **k: FakeTmp(suffix))
    PR.IoAdapterPy = Adapter
    outdir = tempfile.mkdtemp(prefix="c14env")
    t0 = time.time()
    try:
        def run():
            for f in os.listdir(outdir):
                os.unlink(os.path.join(outdir, f))
            o = lambda n: os.path.join(outdir, n)   # noqa: E731
            sys.argv = ["annotator", src, "--csv", o("o.csv"), "--json", o("o.json"), "--bpseq", o("o.bpseq"), "--dot", o("o.dot"), "--pml", o("o.pml"),
                        "--inter-stem-csv", o("inter.csv"), "--stems-csv", o("stems.csv")] + extra + list(dots)
            buf = io.StringIO()
            before = frame.snapshot()
            with contextlib.redirect_stdout(buf):
                AN.main()
            fd = frame.diff(before, frame.snapshot())
            files = {f: open(os.path.join(outdir, f), "rb").read().decode("utf-8", "replace") for f in sorted(os.listdir(outdir))}
            return {"stdout": buf.getvalue(), "files": files, "frame": [list(x) for x in fd]}
        paths = eng.explore(run, maxpaths=40)
    finally:
        U.tempfile, PR.IoAdapterPy, sys.argv = saved
        shutil.rmtree(outdir, ignore_errors=True)
    res = {"name": f"{ENV_TOOL[kind][0].split('.')[1]}.main:{kind}:{' '.join(dots) or 'default'}", "paths": len(paths), "exhausted": eng.exhausted, "queries": eng.nq, "solver_s": round(eng.tq, 3),
           "realized": getattr(eng, "realized", 0), "wall_s": round(time.time() - t0, 1), "differs": None, "exception": None, "frame": [], "nfiles": 0}
    outs = []
    for path, out in paths:
        if isinstance(out, Exception):
            res["exception"] = f"{type(out).__name__}: {out}"
            continue
        res["nfiles"] = len(out["files"])
        if out["frame"]:
            res["frame"] = out["frame"][:3]
        v, m, _ = eng.prove(path, z3.BoolVal(True))
        outs.append((B.conc(sym, m) if m is not None else None, out))
    for name_b, ob in outs[1:]:
        name_a, oa = outs[0]
        for k in ["stdout"] + sorted(set(oa["files"]) | set(ob["files"])):
            va = oa["stdout"] if k == "stdout" else oa["files"].get(k)
            vb = ob["stdout"] if k == "stdout" else ob["files"].get(k)
            if va != vb:
                res["differs"] = {"output": k, "names": [name_a, name_b]}
                break
        if res["differs"]:
            break
    return res


REPLAY_ENV = '''
import subprocess, tempfile, shutil
root = os.path.join(os.environ.get("VERIF_REPO_SRC", "/repo/src"), "..")
src = os.path.join(root, {src!r})
extra = [os.path.join(root, a) if a.startswith("tests/") else a for a in {extra!r}]
runs = []
for k in range(2):
    d = tempfile.mkdtemp()
    o = lambda n: os.path.join(d, n)
    cmd = [sys.executable, "-m", {module!r}, src, "--csv", o("o.csv"), "--json", o("o.json"), "--bpseq", o("o.bpseq"), "--dot", o("o.dot"), "--pml", o("o.pml"),
           "--inter-stem-csv", o("inter.csv"), "--stems-csv", o("stems.csv")] + extra + {dots!r}
    env = dict(os.environ); env["PYTHONPATH"] = os.environ.get("VERIF_REPO_SRC", "/repo/src")
    r = subprocess.run(cmd, capture_output=True, text=True, env=env, cwd=d)
    runs.append((r.stdout, {{f: open(o(f), "rb").read() for f in sorted(os.listdir(d))}}))
    shutil.rmtree(d)
same = runs[0] == runs[1]
if not same:
    for f in runs[0][1]:
        if runs[0][1][f] != runs[1][1].get(f): print("output", f, "differs between two runs of the same command")
sys.exit(0 if same else 1)
'''

HISTORY_CODE = '''
import sys, io, json, logging
logging.disable(logging.CRITICAL)
from rnapolis.parser import read_3d_structure
def parse(text):
    f = io.StringIO(text); f.name = "x.pdb"
    s = read_3d_structure(f, None)
    return [(str(r), r.one_letter_name, [a.name for a in r.atoms]) for r in s.residues]
x, y = json.loads(sys.argv[1])
if y: parse(y)
print(json.dumps(parse(x)))
'''

REPLAY_HISTORY = '''
import subprocess, json
code = {code!r}
def pdb(resname, names):
    return "".join("HETATM%5d %-4s %3s A   1    %8.3f%8.3f%8.3f  1.00  0.00           %s\\n" % (i + 1, n if len(n) == 4 else " " + n, resname, 1.0 + 2 * i, 2.0, 3.0, n[0])
                   for i, n in enumerate(names)) + "END\\n"
SETS = [["N9", "C8", "N7", "C5", "C6", "N6", "N1", "C2", "N3", "C4"], ["N1", "C2", "O2", "N3", "C4", "O4", "C5", "C6"], ["O"], ["N1", "C2", "O2", "N3", "C4", "N4", "C5", "C6"]]
texts = [pdb(rn, s) for rn in ("P5P", "HOH") for s in SETS]
env = dict(os.environ); env["PYTHONPATH"] = os.environ.get("VERIF_REPO_SRC", "/repo/src")
def run(x, y):
    return subprocess.run([sys.executable, "-c", code, json.dumps([x, y])], capture_output=True, text=True, env=env).stdout
bad = 0
for x in texts:
    fresh = run(x, "")
    for y in texts:
        if y != x and run(x, y) != fresh:
            print("read_3d_structure gives", run(x, y).strip(), "after another file was read in the same process, and", fresh.strip(), "in a fresh process")
            bad = 1
            break
    if bad: break
sys.exit(bad)
'''

_run_prev = run


def run(rep, tier):   # noqa: F811
    import subprocess, tempfile, os
    from vlib.core import Violation, VERIF, REPLAY_HEADER
    from vlib.par import pmap, Crashed
    _run_prev(rep, tier)
    # (a) process environment: the temporary file name is symbolic
    specs = [("pdb", ()), ("pdb", ("--all-dot-brackets",)), ("adapter", ())]
    if tier != "quick":
        specs += [("pdb", ("--extended",)), ("cif", ()), ("cif", ("--extended",)), ("cif", ("--all-dot-brackets",))]
    for sp, r in zip(specs, pmap(job_env, specs)):
        if isinstance(r, Crashed):
            rep.harness_error(f"environment job {sp} crashed: {r.why}")
            continue
        rep.add(states=r["paths"], transitions=max(r["queries"], 1), solver_s=r["solver_s"], obligations=1)
        rep.sample({"group": r["name"], "paths": r["paths"], "name_realised": r["realized"], "output_files": r["nfiles"], "wall_s": r["wall_s"]}, cap=12)
        if r["exception"] or r["nfiles"] < 6:
            rep.harness_error(f"{r['name']}: {r['exception'] or 'only %d output files' % r['nfiles']}")
            continue
        if r["differs"]:
            rep.add(discharged=1)
            rep.violation(Violation(f"{ENV_TOOL[sp[0]][0].split('.')[1]}.main:environment", f"{r['name']}: output {r['differs']['output']} depends on the name of the temporary copy of the input "
                                    f"(differs for names ...{r['differs']['names'][0]}... and ...{r['differs']['names'][1]}...)",
                                    REPLAY_ENV.format(src=ENV_INPUTS[sp[0]], dots=list(sp[1]), module=ENV_TOOL[sp[0]][0], extra=ENV_TOOL[sp[0]][1]), witness=r["differs"]))
        elif r["exhausted"]:
            rep.add(discharged=1, reachability_witnesses=1)
        else:
            rep.add(undecided=1)
        if r["frame"]:
            rep.cov.setdefault("frame_diffs", []).append({"where": r["name"], "diff": r["frame"]})
    # (b) call history: frame condition on every symbolic path of the PDB reader (residue names that need the atom-based detection)
    from harness import c08
    fr = pmap(c08.job_pdb, [("hetero-names", "none")])[0]
    if isinstance(fr, Crashed):
        rep.harness_error(f"frame job crashed: {fr.why}")
    else:
        rep.add(states=fr["paths"], transitions=max(fr["queries"], 1), solver_s=fr["solver_s"], obligations=1)
        if fr["frame_paths"] != fr["paths"] or not fr["paths"]:
            rep.harness_error(f"frame condition evaluated on {fr['frame_paths']} of {fr['paths']} paths")
        if fr["frame_diffs"]:
            rep.cov.setdefault("frame_diffs", []).append({"where": fr["name"], "diff": fr["frame_diffs"][0]})
        else:
            rep.add(discharged=1)
    # a failed frame condition is only a sufficient-condition failure: it is reported as a violation when a history that changes an output exists
    if rep.cov.get("frame_diffs"):
        src = REPLAY_HEADER + REPLAY_HISTORY.format(code=HISTORY_CODE)
        with tempfile.NamedTemporaryFile("w", suffix=".py", delete=False) as t:
            t.write(src)
        env = dict(os.environ)
        rc = subprocess.run([os.path.join(VERIF, ".venv/bin/python"), t.name], capture_output=True, text=True, env=env).returncode
        os.unlink(t.name)
        d = rep.cov["frame_diffs"][0]
        if rc == 1:
            rep.add(discharged=1)
            rep.violation(Violation("parser.read_3d_structure:history", f"a call changes module-level state ({d['diff'][0][0] if d['diff'] else d}) and the output for one file depends on the files read "
                                    "before it in the same process", REPLAY_HISTORY.format(code=HISTORY_CODE), witness=d))
        else:
            rep.add(undecided=1)
            rep.sample({"note": "module-level state changes across a call, but no output difference was reproduced with the candidate histories", "diff": d})
    rep.add(functions_encoded=["annotator.main and adapter.main / handle_output_arguments (every output option) with util.handle_input_file", "parser.read_3d_structure (frame condition)"],
            stubs=["tempfile.NamedTemporaryFile -> in-memory file whose name has 3 symbolic characters over 'a7_'", "IoAdapterPy.readFile(name) -> parses the text stored under that name"])
    rep.cov["bounds"]["environment"] = "annotator.main on tests/488d.pdb (thorough: and tests/1ehz-assembly-1.cif), adapter.main on tests/184D.cif + FR3D listing, all output options; temporary-file name symbolic in 3 characters"
    rep.cov["bounds"]["history"] = "PDB files of 3 HETATM lines, 2 residues whose names need the atom-based one-letter detection; module-level mutable state compared on every path"
    rep.assume("history independence is decided through the frame condition (module-level mutable containers of rnapolis.* are unchanged by a call); "
               "state hidden in closures, functools caches or C extensions is outside it")


# ======================================================================================================
# extension 3: a file that is rewritten between two reads (file system = stub with the contract "readFile returns the current content")
# ======================================================================================================
REREAD_ATTRS = ["group_PDB", "id", "label_atom_id", "label_comp_id", "label_asym_id", "label_entity_id", "label_seq_id", "pdbx_PDB_ins_code",
                "Cartn_x", "Cartn_y", "Cartn_z", "occupancy", "auth_seq_id", "auth_comp_id", "auth_asym_id", "pdbx_PDB_model_num"]


def job_reread(_):
    """the real mmCIF reader on one path name whose content changes between two reads: one atom_site row per content, chain and
    residue number symbolic; the second read must return the second content on every path"""
    import sys
    sys.path.insert(0, "/verif")
    import time
    import z3
    from symx.engine import Engine
    from symx import bstr as B
    import rnapolis.parser as PR
    from mmcif.api.PdbxContainers import DataContainer
    from mmcif.api.DataCategory import DataCategory
    eng = Engine(timeout_ms=20000)
    ns = B.instrument_module_functions(PR, ["try_parse_int", "is_cif", "parse_cif", "filter_clashing_atoms", "get_residue_name",
                                            "get_one_letter_name", "detect_one_letter_name", "group_atoms", "read_3d_structure"], eng)
    tables = []
    XS = ["1.000", "9.000"]
    for k in range(2):
        chain = B.bvar(eng, f"chain{k}", 2, minlen=1, charset="ABab")
        seq_n, seq = B.int_field(eng, f"seq{k}", 3, True)
        tables.append([["ATOM", "1", "P", "G", chain, "1", seq, "?", XS[k], "2.000", "3.000", "1.00", seq, "G", chain, "1"]])
    calls = {"n": 0}

    class FakeAdapter:
        def readFile(self, path, *a, **kw):
            k = min(calls["n"], 1)
            calls["n"] += 1
            c = DataContainer("verif")
            c.append(DataCategory("atom_site", list(REREAD_ATTRS), [list(r) for r in tables[k]]))
            return [c]

    class FakeFile:
        name = "/fake/work/model.cif"

        def seek(self, n):
            pass

        def readlines(self):
            return ["data_x\n", "_atom_site.id\n"]
    saved = PR.IoAdapterPy
    PR.IoAdapterPy = FakeAdapter          # helpers outside the instrumented set see the stub as well
    ns["IoAdapterPy"] = FakeAdapter
    t0 = time.time()
    try:
        def run():
            calls["n"] = 0
            a = ns["read_3d_structure"](FakeFile(), None)
            b = ns["read_3d_structure"](FakeFile(), None)
            return [[float(x.x) for r in s.residues for x in r.atoms] for s in (a, b)]
        paths = eng.explore(run, maxpaths=5000)
    finally:
        PR.IoAdapterPy = saved
    res = {"name": "reread:cif", "paths": len(paths), "bad": None, "exception": None, "queries": eng.nq, "solver_s": round(eng.tq, 2), "wall_s": round(time.time() - t0, 1),
           "frame_diffs": getattr(eng, "frame_diffs", []), "exhausted": eng.exhausted}
    for path, out in paths:
        if isinstance(out, Exception):
            res["exception"] = f"{type(out).__name__}: {out}"
        elif out != [[1.0], [9.0]] and res["bad"] is None:
            res["bad"] = out
    return res


REPLAY_REREAD = '''
import tempfile
from rnapolis.parser import read_3d_structure
ATTRS = {attrs!r}
def text(x):
    row = ["ATOM", "1", "P", "G", "A", "1", "7", "?", x, "2.000", "3.000", "1.00", "7", "G", "A", "1"]
    return "data_verif\\nloop_\\n" + "".join("_atom_site." + a + "\\n" for a in ATTRS) + " ".join(row) + "\\n#\\n"
d = tempfile.mkdtemp(); p = os.path.join(d, "model.cif")
got = []
for x in ("1.000", "9.000"):
    open(p, "w").write(text(x))
    with open(p) as f:
        s = read_3d_structure(f, None)
    got.append([a.x for r in s.residues for a in r.atoms])
print("two reads of one path, rewritten in between:", got)
sys.exit(0 if got == [[1.0], [9.0]] else 1)
'''

_run_prev2 = run


def run(rep, tier):   # noqa: F811
    from vlib.core import Violation
    from vlib.par import pmap, Crashed
    _run_prev2(rep, tier)
    r = pmap(job_reread, [0])[0]
    if isinstance(r, Crashed):
        rep.harness_error(f"reread job crashed: {r.why}")
        return
    rep.add(states=r["paths"], transitions=max(r["queries"], 1), solver_s=r["solver_s"], obligations=1)
    rep.sample({"group": r["name"], "paths": r["paths"], "wall_s": r["wall_s"]}, cap=14)
    if r["exception"] or not r["paths"] or not r["exhausted"]:
        rep.harness_error(f"reread job: {r['exception'] or 'exploration incomplete'}")
        return
    rep.add(discharged=1)
    if r["bad"] is not None:
        rep.violation(Violation("parser.read_3d_structure:reread", f"a path read twice with its content rewritten in between gives coordinates {r['bad']} instead of [[1.0], [9.0]] "
                                "(the second read does not return the current content)", REPLAY_REREAD.format(attrs=REREAD_ATTRS), witness=r["bad"]))
    else:
        rep.add(reachability_witnesses=1)
    if r["frame_diffs"]:
        rep.cov.setdefault("frame_diffs", []).append({"where": r["name"], "diff": r["frame_diffs"][0]})
    rep.cov["functions_encoded"].append("parser.read_3d_structure / parse_cif (one path name, two contents)")
    rep.cov["stubs"].append("IoAdapterPy.readFile(name) -> the content currently stored under that name (changes between the two reads)")
    rep.cov["bounds"]["reread"] = "mmCIF file of one atom_site row, chain (1-2 chars) and residue number (-999..999) symbolic in both contents"


# ======================================================================================================
# extension 4: library functions that go through temporary files (written mmCIF text, transformer) under the symbolic environment
# ======================================================================================================
class SymTmpEnv:
    """tempfile / IoAdapterPy / os.remove stand-ins sharing one registry: every temporary file is an in-memory buffer whose name is a
    symbolic string; the adapter reads and writes the buffer registered under a name (contract: the name is only a handle)"""

    def __init__(self, eng, alphabet=ENV_ALPHABET):
        import io, os, tempfile, types
        from symx import bstr as B
        self.eng, self.B, self.io, self.os, self.tempfile = eng, B, io, os, tempfile
        self.registry = {}
        self.count = 0
        self.syms = []
        env = self

        class FakeTmp(io.StringIO):
            def __init__(self, suffix):
                super().__init__()
                k = env.count
                env.count += 1
                while len(env.syms) <= k:
                    env.syms.append(B.bvar(eng, f"tmpname{len(env.syms)}", 3, minlen=3, charset=alphabet))
                self.name = B.BStr.const(eng, "/tmp/tmp") + env.syms[k] + B.BStr.const(eng, "q0x1z" + (suffix or ""))
                env.registry[id(self.name)] = self

            def close(self):
                pass                      # the buffer stays readable for the adapter after a `with` block (delete=False usage)

        self.FakeTmp = FakeTmp
        self.tempfile_ns = types.SimpleNamespace(NamedTemporaryFile=lambda mode="w", suffix=None, **k: FakeTmp(suffix))

        class OsShim:
            path = os.path

            def __getattr__(self, k):
                return getattr(os, k)

            def remove(self, name):
                if id(name) in env.registry:
                    del env.registry[id(name)]
                    return None
                return os.remove(name)
        self.os_ns = OsShim()

    def adapter_class(self, real_adapter):
        env = self

        class Adapter:
            def readFile(self, name, *a, **k):
                f = env.registry.get(id(name))
                if f is None:
                    return real_adapter().readFile(name, *a, **k)
                with env.tempfile.NamedTemporaryFile("wt", suffix=".cif", delete=False) as t:
                    t.write(f.getvalue())
                try:
                    return real_adapter().readFile(t.name, *a, **k)
                finally:
                    env.os.unlink(t.name)

            def writeFile(self, name, containers, *a, **k):
                f = env.registry.get(id(name))
                if f is None:
                    return real_adapter().writeFile(name, containers, *a, **k)
                with env.tempfile.NamedTemporaryFile("wt", suffix=".cif", delete=False) as t:
                    pass
                try:
                    ok = real_adapter().writeFile(t.name, containers, *a, **k)
                    f.seek(0)
                    f.truncate()
                    f.write(open(t.name).read())
                    f.seek(0)
                    return ok
                finally:
                    env.os.unlink(t.name)
        return Adapter

    def install(self, modules):
        self.saved = []
        for m in modules:
            for attr, val in (("tempfile", self.tempfile_ns), ("os", self.os_ns)):
                if attr in vars(m):
                    self.saved.append((m, attr, vars(m)[attr]))
                    setattr(m, attr, val)
            if "IoAdapterPy" in vars(m):
                self.saved.append((m, "IoAdapterPy", m.IoAdapterPy))
                m.IoAdapterPy = self.adapter_class(m.IoAdapterPy)

    def uninstall(self):
        for m, attr, val in reversed(self.saved):
            setattr(m, attr, val)

    def reset(self):
        self.count = 0
        self.registry.clear()


ENV2_KINDS = ["write_cif", "write_cif_from_pdb", "copy_from_to", "replace_value"]


def job_env2(kind):
    """library functions that return written mmCIF text, with every temporary-file name symbolic"""
    import sys
    sys.path.insert(0, "/verif")
    import os, time, logging, warnings
    import z3
    from symx.engine import Engine
    from symx import bstr as B
    from vlib.core import REPO_SRC
    import rnapolis.parser_v2 as P2
    import rnapolis.transformer as TR
    logging.disable(logging.CRITICAL)
    warnings.filterwarnings("ignore")
    eng = Engine(timeout_ms=10000)
    eng.realize_on_str = True
    env = SymTmpEnv(eng)
    root = os.path.dirname(REPO_SRC)
    cif_text = open(os.path.join(root, "tests/184D.cif")).read()
    pdb_text = open(os.path.join(root, "tests/488d.pdb")).read()
    env.install([P2, TR])
    t0 = time.time()
    try:
        def run():
            env.reset()
            if kind == "write_cif":
                df = P2.parse_cif_atoms(cif_text)
                return [P2.write_cif(df), df.to_csv()]
            if kind == "write_cif_from_pdb":
                import io
                df = P2.parse_pdb_atoms(io.StringIO(pdb_text))
                text = P2.write_cif(df)
                return [text, P2.parse_cif_atoms(text).to_csv()]
            if kind == "copy_from_to":
                return [TR.copy_from_to(cif_text, "atom_site", "label_asym_id", "auth_asym_id")]
            text, mapping = TR.replace_value(cif_text, "atom_site", "auth_asym_id")
            return [text, sorted(mapping.items())]
        paths = eng.explore(run, maxpaths=800)
    finally:
        env.uninstall()
    res = {"name": f"library:{kind}", "paths": len(paths), "exhausted": eng.exhausted, "queries": eng.nq, "solver_s": round(eng.tq, 3), "realized": getattr(eng, "realized", 0),
           "wall_s": round(time.time() - t0, 1), "differs": None, "exception": None, "tmpfiles": len(env.syms), "size": 0}
    outs = []
    for path, out in paths:
        if isinstance(out, Exception):
            res["exception"] = f"{type(out).__name__}: {out}"
            continue
        res["size"] = sum(len(str(x)) for x in out)
        outs.append(out)
    for ob in outs[1:]:
        if ob != outs[0]:
            res["differs"] = True
            break
    return res


REPLAY_ENV2 = '''
import subprocess
code = """
import sys, os, io, warnings, logging
warnings.filterwarnings("ignore"); logging.disable(logging.CRITICAL)
import rnapolis.parser_v2 as P2, rnapolis.transformer as TR
root = os.path.join(os.environ.get("VERIF_REPO_SRC", "/repo/src"), "..")
cif_text = open(os.path.join(root, "tests/184D.cif")).read(); pdb_text = open(os.path.join(root, "tests/488d.pdb")).read()
kind = sys.argv[1]
if kind == "write_cif":
    df = P2.parse_cif_atoms(cif_text); out = [P2.write_cif(df), df.to_csv()]
elif kind == "write_cif_from_pdb":
    df = P2.parse_pdb_atoms(io.StringIO(pdb_text)); text = P2.write_cif(df); out = [text, P2.parse_cif_atoms(text).to_csv()]
elif kind == "copy_from_to":
    out = [TR.copy_from_to(cif_text, "atom_site", "label_asym_id", "auth_asym_id")]
else:
    text, mapping = TR.replace_value(cif_text, "atom_site", "auth_asym_id"); out = [text, sorted(mapping.items())]
print(repr(out))
"""
env = dict(os.environ); env["PYTHONPATH"] = os.environ.get("VERIF_REPO_SRC", "/repo/src")
outs = []
for k in range(3):
    e = dict(env); e["TMPDIR"] = "/tmp" if k == 0 else __import__("tempfile").mkdtemp(prefix="verif_env_%d_" % k)
    outs.append(subprocess.run([sys.executable, "-c", code, {kind!r}], capture_output=True, text=True, env=e).stdout)
print("distinct outputs over three runs with different temporary directories / names:", len(set(outs)))
sys.exit(1 if len(set(outs)) > 1 else 0)
'''

_run_prev3 = run


def run(rep, tier):   # noqa: F811
    from vlib.core import Violation
    from vlib.par import pmap, Crashed
    _run_prev3(rep, tier)
    kinds = ENV2_KINDS if tier != "quick" else ["write_cif", "replace_value"]
    for kind, r in zip(kinds, pmap(job_env2, kinds)):
        if isinstance(r, Crashed):
            rep.harness_error(f"environment job {kind} crashed: {r.why}")
            continue
        rep.add(states=r["paths"], transitions=max(r["queries"], 1), solver_s=r["solver_s"], obligations=1)
        rep.sample({"group": r["name"], "paths": r["paths"], "temporary_files": r["tmpfiles"], "name_realised": r["realized"], "output_chars": r["size"], "wall_s": r["wall_s"]}, cap=18)
        if r["exception"] or not r["paths"] or r["size"] < 1000 or r["tmpfiles"] < 1:
            rep.harness_error(f"{r['name']}: {r['exception'] or 'no output / no temporary file seen'}")
            continue
        if r["differs"]:
            rep.add(discharged=1)
            rep.violation(Violation(f"{r['name']}:environment", f"{r['name']}: the returned text depends on the name of a temporary file", REPLAY_ENV2.format(kind=kind), witness=kind))
        elif r["exhausted"]:
            rep.add(discharged=1, reachability_witnesses=1)
        else:
            rep.add(undecided=1)
    rep.cov["functions_encoded"].append("parser_v2.parse_cif_atoms / write_cif, transformer.copy_from_to / replace_value with symbolic temporary-file names")
    rep.cov["stubs"].append("tempfile / IoAdapterPy / os.remove in parser_v2 and transformer share a registry of in-memory files with symbolic names")
    rep.cov["bounds"]["environment (library)"] = "tests/184D.cif and tests/488d.pdb through write_cif / copy_from_to / replace_value; every temporary-file name symbolic in 3 characters"
