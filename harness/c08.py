"""C08 — structure reading preserves atoms, residue identity and the requested model (E2; text / record layer).

PDB route: MODEL / ATOM lines produced by an independent emitter from symbolic identity fields (model numbers, chain,
residue number incl. negatives, insertion code) with atom / residue names, coordinates and occupancies taken from concrete
tables; the real `read_3d_structure` -> `parse_pdb` -> `filter_clashing_atoms` -> `group_atoms` run instrumented (the real
scipy KD-tree runs natively on the concrete coordinates).  mmCIF route: `IoAdapterPy` is replaced by a stub returning an
`atom_site` table whose identity / null-marker cells are symbolic; the tokenizer is outside the claim.
A reference reader written here runs on the same proxies inside the same path, so that every identity decision is forked
consistently; its residue list is compared with the real one.
"""
import sys
import time

PID = "C08"

# (atom name, residue name, xyz, occupancy) per line; configurations chosen so that duplicate / clash / model logic is exercised
CONFIGS = {
    # two models with one atom each; identities symbolic (may coincide as in NMR ensembles); coordinates far apart
    "two-models-far": {"layout": ["M0", 0, "E", "M1", 1, "E"],
                       "atoms": [("P", "G", (1.0, 2.0, 3.0), 1.0), ("P", "G", (21.0, 2.0, 3.0), 1.0)]},
    # NMR-like: the second model's atom sits 0.1 A from the first model's
    "two-models-near": {"layout": ["M0", 0, "E", "M1", 1, "E"],
                        "atoms": [("P", "G", (1.0, 2.0, 3.0), 1.0), ("P", "G", (1.1, 2.0, 3.0), 1.0)]},
    "two-models-two-atoms": {"same_as": {1: 0, 3: 2}, "layout": ["M0", 0, 1, "E", "M1", 2, 3, "E"],
                             "atoms": [("P", "G", (1.0, 2.0, 3.0), 1.0), ("C1'", "G", (4.0, 2.0, 3.0), 1.0),
                                       ("P", "G", (1.0, 9.0, 3.0), 1.0), ("C1'", "G", (4.0, 9.0, 3.0), 1.0)], "tie": [(0, 1), (2, 3)]},
    # one model: repeated atom name (alternate locations) with different occupancies, plus a third atom
    "altloc-low-high": {"same_as": {2: 0}, "layout": [0, 1, 2], "atoms": [("N1", "A", (1.0, 2.0, 3.0), 0.4), ("N1", "A", (5.0, 2.0, 3.0), 0.6),
                                                        ("C2", "A", (9.0, 2.0, 3.0), 1.0)]},
    "altloc-high-low": {"same_as": {2: 0}, "layout": [0, 1, 2], "atoms": [("N1", "A", (1.0, 2.0, 3.0), 0.6), ("N1", "A", (5.0, 2.0, 3.0), 0.4),
                                                        ("C2", "A", (9.0, 2.0, 3.0), 1.0)]},
    # two different atoms closer than 0.5 A: only the one of higher occupancy survives
    "clash": {"same_as": {2: 0}, "layout": [0, 1, 2], "atoms": [("N1", "C", (1.0, 2.0, 3.0), 0.7), ("C2", "C", (1.3, 2.0, 3.0), 0.3), ("N3", "C", (9.0, 2.0, 3.0), 1.0)]},
    # three copies of one atom: the highest-occupancy copy is neither first nor last
    "altloc-three": {"same_as": {1: 0, 2: 0, 3: 0}, "layout": [0, 1, 2, 3],
                     "atoms": [("N1", "A", (1.0, 2.0, 3.0), 0.2), ("N1", "A", (5.0, 2.0, 3.0), 0.5), ("N1", "A", (9.0, 2.0, 3.0), 0.3), ("C2", "A", (13.0, 2.0, 3.0), 1.0)]},
    # sparse concrete model numbers (default model = first in the file, not the first of some set order)
    "two-models-sparse": {"layout": ["M0", 0, "E", "M1", 1, "E"], "concrete_models": [1, 8],
                          "atoms": [("P", "G", (1.0, 2.0, 3.0), 1.0), ("P", "G", (21.0, 2.0, 3.0), 1.0)]},
    "two-models-descending": {"layout": ["M0", 0, "E", "M1", 1, "E"], "concrete_models": [2, 1],
                              "atoms": [("P", "G", (1.0, 2.0, 3.0), 1.0), ("P", "G", (21.0, 2.0, 3.0), 1.0)]},
    # residue names that do not end in A/C/G/U/T/N: the one-letter name comes from the atom-based detection (used by C14's frame condition)
    "hetero-names": {"layout": [0, 1, 2], "atoms": [("O", "HOH", (1.0, 2.0, 3.0), 1.0), ("N9", "P5P", (9.0, 2.0, 3.0), 1.0), ("C2", "P5P", (9.0, 9.0, 3.0), 1.0)],
                     "same_as": {2: 1}},
    "no-model-records": {"layout": [0, 1], "atoms": [("P", "U", (1.0, 2.0, 3.0), 1.0), ("OP1", "U", (3.0, 2.0, 3.0), 1.0)]},
}


def job_pdb(spec):
    cfg_name, req_kind = spec           # req_kind: 'none' | 'sym'
    sys.path.insert(0, "/verif")
    import z3
    from symx.engine import Engine, SInt
    from symx import bstr as B, pdbline as P
    import rnapolis.parser as PR
    eng = Engine(timeout_ms=20000)
    cfg = CONFIGS[cfg_name]
    ns = B.instrument_module_functions(PR, ["try_parse_int", "is_cif", "parse_pdb", "filter_clashing_atoms", "get_residue_name",
                                            "get_one_letter_name", "detect_one_letter_name", "group_atoms", "read_3d_structure"], eng)
    natoms = len(cfg["atoms"])
    fields = []
    for i, (an, rn, xyz, occ) in enumerate(cfg["atoms"]):
        if i in cfg.get("same_as", {}):
            f = dict(fields[cfg["same_as"][i]])        # same residue by construction (shares the identity proxies)
        else:
            f = P.sym_fields(eng, f"a{i}")
        f["altloc"] = B.BStr.const(eng, "")
        f["name"] = B.BStr.const(eng, an)
        f["resname"] = B.BStr.const(eng, rn)
        f["element"] = B.BStr.const(eng, an[0])
        f["serial"] = B.BStr.const(eng, str(i + 1))
        fields.append(f)
    models = []
    for k in range(2):
        if "concrete_models" in cfg:
            from symx.engine import SInt as _SI
            import z3 as _z3
            val = cfg["concrete_models"][k]
            n = _SI(eng, _z3.IntVal(val))
            n.src = B.BStr.const(eng, str(val))
            models.append((n, B.BStr.const(eng, str(val))))
            continue
        n, b = B.int_field(eng, f"model{k}", 4, False)
        models.append((n, P.trim(b, 4)))
    req = eng.int("requested", 1, 9999) if req_kind == "sym" else None
    lines = []
    cur = None
    model_of = {}
    for item in cfg["layout"]:
        if item == "E":
            lines.append("ENDMDL\n")
        elif isinstance(item, str):
            cur = int(item[1])
            lines.append(P.model_line(eng, models[cur][1]) + "\n")
        else:
            an, rn, xyz, occ = cfg["atoms"][item]
            model_of[item] = cur
            ln = P.atom_line(eng, fields[item], P.fmt83(xyz[0]), P.fmt83(xyz[1]), P.fmt83(xyz[2]), occ=P.fmt62(occ),
                             name_lead_space=(len(an) < 4))
            lines.append(ln + "\n")
    lines.append("END\n")

    class FakeFile:
        name = "/fake/input.pdb"

        def seek(self, n):
            pass

        def readlines(self):
            return list(lines)

    def identity(i):
        f = fields[i]
        return (f["chain"], f["resseq_n"], f["icode"], cfg["atoms"][i][1])

    def same_identity(i, j):
        a, b = identity(i), identity(j)
        if a[3] != b[3]:
            return False
        return bool(a[0] == b[0]) and bool(a[1] == b[1]) and bool(a[2] == b[2])

    def model_val(i):
        return None if model_of[i] is None else models[model_of[i]][0]

    def same_model(i, j):
        a, b = model_val(i), model_val(j)
        if a is None or b is None:
            return a is None and b is None
        return bool(a == b)

    def reference():
        """what the statement demands, decided on the same proxies"""
        order = [it for it in cfg["layout"] if isinstance(it, int)]
        first = order[0]
        # requested model (default: the first model of the file)
        chosen = first
        if req is not None:
            for i in order:
                mv = model_val(i)
                if mv is not None and bool(mv == req):
                    chosen = i
                    break
                if mv is None and bool(req == 1):
                    chosen = i
                    break
        sel = [i for i in order if same_model(i, chosen)]
        # duplicates by (residue identity, atom name) inside the model: the highest-occupancy copy, at the first copy's position
        kept = []
        for i in sel:
            for pos, j in enumerate(kept):
                if cfg["atoms"][i][0] == cfg["atoms"][j][0] and same_identity(i, j):
                    if cfg["atoms"][i][3] > cfg["atoms"][j][3]:
                        kept[pos] = i
                    break
            else:
                kept.append(i)
        # two atoms closer than 0.5 A: only one of highest occupancy
        alive = list(kept)
        alternatives = [alive]
        for x in range(len(kept)):
            for y in range(x + 1, len(kept)):
                i, j = kept[x], kept[y]
                pi, pj = cfg["atoms"][i][2], cfg["atoms"][j][2]
                d2 = sum((pi[k] - pj[k]) ** 2 for k in range(3))
                if d2 <= 0.25 and i in alive and j in alive:
                    oi, oj = cfg["atoms"][i][3], cfg["atoms"][j][3]
                    if oi > oj:
                        alive.remove(j)
                    elif oj > oi:
                        alive.remove(i)
                    else:
                        alternatives = [[a for a in alive if a != i], [a for a in alive if a != j]]
                        alive = alternatives[0]
        outs = []
        for alt in (alternatives if len(alternatives) > 1 else [alive]):
            residues = []
            for i in alt:
                if residues and same_identity(residues[-1][0], i):
                    residues[-1].append(i)
                else:
                    residues.append([i])
            outs.append(residues)
        return outs

    def run():
        s3 = ns["read_3d_structure"](FakeFile(), req)
        got = []
        for r in s3.residues:
            got.append((r, [int(round(a.x * 1000 + a.y * 7)) for a in r.atoms]))
        want = reference()
        return got, want
    t0 = time.time()
    paths = eng.explore(run, maxpaths=20000)
    res = {"name": f"pdb:{cfg_name}:req-{req_kind}", "paths": len(paths), "verdicts": [], "reach": 0}
    code = {int(round(xyz[0] * 1000 + xyz[1] * 7)): i for i, (_, _, xyz, _) in enumerate(cfg["atoms"])}

    def wit(m):
        if m is None:
            return None
        return {"cfg": cfg_name, "lines": [B.conc(x, m) if not isinstance(x, str) else x for x in lines],
                "req": None if req is None else m.eval(req.e, model_completion=True).as_long()}
    for path, out in paths:
        if isinstance(out, Exception):
            v, m, _ = eng.prove(path, z3.BoolVal(True))
            res["verdicts"].append({"ob": f"read_3d_structure raised {type(out).__name__}: {out}", "v": v, "key": "parser.read_3d_structure:exception-pdb",
                                    "w": wit(m)})
            continue
        got, wants = out
        res["reach"] += 1
        got_idx = [[code.get(c, -1) for c in atoms] for _, atoms in got]
        if got_idx not in wants:
            v, m, _ = eng.prove(path, z3.BoolVal(True))
            res["verdicts"].append({"ob": f"residues/atoms read {got_idx} (by input line), the statement demands {wants[0]}", "v": v,
                                    "key": "parser.read_3d_structure:atoms-pdb", "w": wit(m)})
            continue
        # residue fields exactly as written
        neg = []
        for (r, _), idxs in zip(got, got_idx):
            f = fields[idxs[0]]
            a = r.auth
            for gotv, wantv in ((a.chain, f["chain"]), (a.name, f["resname"])):
                e = (gotv == wantv)
                neg.append(z3.Not(e.e) if hasattr(e, "e") else z3.BoolVal(not e))
            neg.append(a.number.e != f["resseq_n"].e if isinstance(a.number, SInt) else z3.BoolVal(True))
            if a.icode is None:
                neg.append(f["icode"].lnz() != 0)
            else:
                e = (a.icode == f["icode"])
                neg.append(z3.Or(z3.Not(e.e) if hasattr(e, "e") else z3.BoolVal(not e), f["icode"].lnz() == 0))
            mv = model_val(idxs[0])
            if mv is None:
                neg.append(z3.BoolVal(r.model != 1))
            elif isinstance(r.model, SInt):
                neg.append(r.model.e != mv.e)
            else:
                neg.append(z3.IntVal(int(r.model)) != mv.e)
        v, m, _ = eng.prove(path, z3.Or(neg))
        res["verdicts"].append({"ob": "a residue's chain / number / insertion code / name / model differs from what was written", "v": v,
                                "key": "parser.read_3d_structure:fields-pdb", "w": wit(m)})
    res.update(queries=eng.nq, solver_s=round(eng.tq, 2), unknown=eng.unknown, wall_s=round(time.time() - t0, 2),
               frame_paths=getattr(eng, "frame_paths", 0), frame_diffs=getattr(eng, "frame_diffs", []))
    return res


REPLAY_PDB = '''
import io, tempfile, os
from rnapolis.parser import read_3d_structure
w = {w!r}
text = "".join(w["lines"])
f = io.StringIO(text); f.name = "/fake/input.pdb"
try:
    s3 = read_3d_structure(f, w["req"])
except Exception as e:
    print("raised", type(e).__name__, e); sys.exit(1)
# independent reference on the concrete text
atoms = []; model = 1
for ln in w["lines"]:
    if ln.startswith("MODEL"): model = int(ln[10:14])
    elif ln.startswith(("ATOM", "HETATM")):
        atoms.append(dict(model=model, name=ln[12:16].strip(), res=ln[17:20].strip(), chain=ln[21], num=int(ln[22:26]), ic=(ln[26] if ln[26] != " " else None),
                          xyz=(float(ln[30:38]), float(ln[38:46]), float(ln[46:54])), occ=float(ln[54:60])))
models = []
for a in atoms:
    if a["model"] not in models: models.append(a["model"])
M = w["req"] if w["req"] in models else models[0]
sel = [a for a in atoms if a["model"] == M]
kept = []
for a in sel:
    for k, b in enumerate(kept):
        if (a["chain"], a["num"], a["ic"], a["res"], a["name"]) == (b["chain"], b["num"], b["ic"], b["res"], b["name"]):
            if a["occ"] > b["occ"]: kept[k] = a
            break
    else: kept.append(a)
def d2(a, b): return sum((a["xyz"][k] - b["xyz"][k]) ** 2 for k in range(3))
alive = list(kept); ties = []
for i in range(len(kept)):
    for j in range(i + 1, len(kept)):
        a, b = kept[i], kept[j]
        if d2(a, b) <= 0.25 and a in alive and b in alive:
            if a["occ"] > b["occ"]: alive.remove(b)
            elif b["occ"] > a["occ"]: alive.remove(a)
            else: ties.append((a, b)); alive.remove(a)
want = sorted((a["chain"], a["num"], a["ic"], a["res"], a["name"], a["xyz"]) for a in alive)
got = sorted((r.auth.chain, r.auth.number, r.auth.icode, r.auth.name, a.name, (a.x, a.y, a.z)) for r in s3.residues for a in r.atoms)
alt = None
if ties:
    a, b = ties[0]; alive2 = [x for x in kept if x is not b and x in alive or x is a]
    alt = sorted((x["chain"], x["num"], x["ic"], x["res"], x["name"], x["xyz"]) for x in alive2)
print("requested", w["req"], "models", models, "\\n got ", got, "\\n want", want)
wrong_model = any(r.model != M for r in s3.residues)
sys.exit(1 if ((got != want and got != alt) or wrong_model) else 0)
'''


# ------------------------------------------------------------------------------------------- mmCIF route
def job_cif(spec):
    variant = spec
    sys.path.insert(0, "/verif")
    import z3
    from symx.engine import Engine, SInt
    from symx import bstr as B
    import rnapolis.parser as PR
    from mmcif.api.PdbxContainers import DataContainer
    from mmcif.api.DataCategory import DataCategory
    eng = Engine(timeout_ms=20000)
    ns = B.instrument_module_functions(PR, ["try_parse_int", "is_cif", "parse_cif", "filter_clashing_atoms", "get_residue_name",
                                            "get_one_letter_name", "detect_one_letter_name", "group_atoms", "read_3d_structure"], eng)
    ATTRS = ["group_PDB", "id", "label_atom_id", "label_comp_id", "label_asym_id", "label_entity_id", "label_seq_id", "pdbx_PDB_ins_code",
             "Cartn_x", "Cartn_y", "Cartn_z", "occupancy", "auth_seq_id", "auth_comp_id", "auth_asym_id", "pdbx_PDB_model_num"]
    nrows = 2
    rows, sym = [], []
    OCC = ["1.00", "0.50", "?", "."]
    for r in range(nrows):
        ic = B.bvar(eng, f"ic{r}", 1, minlen=1, charset="?.AB")
        occ_sel = eng.int(f"occsel{r}", 0, len(OCC) - 1)
        seq_n, seq = B.int_field(eng, f"seq{r}", 3, True)
        mod_n, mod = B.int_field(eng, f"mod{r}", 2, False)
        chain = B.bvar(eng, f"chain{r}", 2, minlen=1, charset="ABab")
        if variant == "one-model":
            eng.assume(mod_n.e == 1)
        else:
            eng.assume(occ_sel.e == 0, z3.Or(ic.chars[0] == ord("?"), ic.chars[0] == ord("A")))
        sym.append({"ic": ic, "occ_sel": occ_sel, "seq_n": seq_n, "seq": seq, "mod_n": mod_n, "mod": mod, "chain": chain})
        rows.append(["ATOM", str(r + 1), ["P", "C1'"][r], "G", chain, "1", seq, ic, "%.3f" % (1.0 + 10 * r), "2.000", "3.000", None,
                     seq, "G", chain, mod])
    req = eng.int("requested", 1, 99) if variant == "two-models" else None

    class FakeAdapter:
        def readFile(self, path):
            c = DataContainer("verif")
            rr = []
            for r, row in enumerate(rows):
                row = list(row)
                row[ATTRS.index("occupancy")] = OCC[sym[r]["occ_sel"].concretize()]
                rr.append(row)
            c.append(DataCategory("atom_site", list(ATTRS), rr))
            return [c]
    ns["IoAdapterPy"] = FakeAdapter

    class FakeFile:
        name = "/fake/input.cif"

        def seek(self, n):
            pass

        def readlines(self):
            return ["data_x\n", "_atom_site.id\n"]

    def run():
        s3 = ns["read_3d_structure"](FakeFile(), req)
        occs = [OCC[sym[r]["occ_sel"].concretize()] for r in range(nrows)]
        # reference decisions on the same proxies
        def isnull(k):
            return bool(sym[k]["ic"] == "?") or bool(sym[k]["ic"] == ".")
        n0, n1 = isnull(0), isnull(1)
        same_ic = (n0 and n1) or (not n0 and not n1 and bool(sym[0]["ic"] == sym[1]["ic"]))
        same_res = bool(sym[0]["chain"] == sym[1]["chain"]) and bool(sym[0]["seq_n"] == sym[1]["seq_n"]) and same_ic
        same_model = bool(sym[0]["mod_n"] == sym[1]["mod_n"])
        chosen = 0
        if req is not None and not bool(sym[0]["mod_n"] == req) and bool(sym[1]["mod_n"] == req):
            chosen = 1
        return s3, occs, same_res, same_model, chosen
    t0 = time.time()
    paths = eng.explore(run, maxpaths=20000)
    res = {"name": f"cif:{variant}", "paths": len(paths), "verdicts": [], "reach": 0}

    def wit(m):
        if m is None:
            return None
        return {"variant": variant, "rows": [[B.conc(c, m) if not isinstance(c, str) and c is not None else c for c in row] for row in rows],
                "occ": [OCC[m.eval(sym[r]["occ_sel"].e, model_completion=True).as_long()] for r in range(nrows)],
                "req": None if req is None else m.eval(req.e, model_completion=True).as_long()}
    for path, out in paths:
        if isinstance(out, Exception):
            v, m, _ = eng.prove(path, z3.BoolVal(True))
            res["verdicts"].append({"ob": f"read_3d_structure (mmCIF) raised {type(out).__name__}: {out}", "v": v,
                                    "key": "parser.read_3d_structure:exception-cif", "w": wit(m)})
            continue
        s3, occs, same_res, same_model, chosen = out
        res["reach"] += 1
        sel = [r for r in range(nrows) if (r == chosen or same_model)]
        want = [[sel[0]]]
        for r in sel[1:]:
            if same_res:
                want[-1].append(r)
            else:
                want.append([r])
        got = [[int(round((a.x - 1.0) / 10)) for a in r.atoms] for r in s3.residues]
        if got != want:
            v, m, _ = eng.prove(path, z3.BoolVal(True))
            res["verdicts"].append({"ob": f"residues/atoms read {got} (by row), expected {want}", "v": v, "key": "parser.read_3d_structure:atoms-cif", "w": wit(m)})
            continue
        neg = []
        for r3, idxs in zip(s3.residues, got):
            sy = sym[idxs[0]]
            a = r3.auth
            e = (a.chain == sy["chain"])
            neg.append(z3.Not(e.e) if hasattr(e, "e") else z3.BoolVal(not e))
            neg.append(a.number.e != sy["seq_n"].e if isinstance(a.number, SInt) else z3.BoolVal(True))
            null = z3.Or(sy["ic"].chars[0] == ord("?"), sy["ic"].chars[0] == ord("."))
            if r3.icode is None:          # the residue-level view of the insertion code
                neg.append(z3.Not(null))
            else:
                e = (r3.icode == sy["ic"])
                neg.append(z3.Or(null, z3.Not(e.e) if hasattr(e, "e") else z3.BoolVal(not e)))
            for k, at in zip(idxs, r3.atoms):
                o = occs[k]
                if (at.occupancy is None) != (o in ("?", ".")) or (at.occupancy is not None and abs(at.occupancy - float(o)) > 1e-9):
                    neg.append(z3.BoolVal(True))
        v, m, _ = eng.prove(path, z3.Or(neg))
        res["verdicts"].append({"ob": "a residue's chain / number / insertion code or an atom's occupancy differs from the table ('?' and '.' are null markers)",
                                "v": v, "key": "parser.read_3d_structure:fields-cif", "w": wit(m)})
    res.update(queries=eng.nq, solver_s=round(eng.tq, 2), unknown=eng.unknown, wall_s=round(time.time() - t0, 2),
               frame_paths=getattr(eng, "frame_paths", 0), frame_diffs=getattr(eng, "frame_diffs", []))
    return res


REPLAY_CIF = '''
import tempfile, os
from rnapolis.parser import read_3d_structure
w = {w!r}
ATTRS = ["group_PDB", "id", "label_atom_id", "label_comp_id", "label_asym_id", "label_entity_id", "label_seq_id", "pdbx_PDB_ins_code",
         "Cartn_x", "Cartn_y", "Cartn_z", "occupancy", "auth_seq_id", "auth_comp_id", "auth_asym_id", "pdbx_PDB_model_num"]
text = "data_verif\\nloop_\\n" + "".join("_atom_site." + a + "\\n" for a in ATTRS)
rows = []
for r, row in enumerate(w["rows"]):
    row = list(row); row[ATTRS.index("occupancy")] = w["occ"][r]; rows.append(row)
    text += " ".join(str(c) for c in row) + "\\n"
text += "#\\n"
d = tempfile.mkdtemp(); p = os.path.join(d, "in.cif"); open(p, "w").write(text)
try:
    with open(p) as f: s3 = read_3d_structure(f, w["req"])
except Exception as e:
    print("raised", type(e).__name__, e); sys.exit(1)
models = []
for row in rows:
    if int(row[-1]) not in models: models.append(int(row[-1]))
M = w["req"] if w["req"] in models else models[0]
want = []
for row in rows:
    if int(row[-1]) != M: continue
    ic = None if row[7] in ("?", ".") else row[7]
    occ = None if row[11] in ("?", ".") else float(row[11])
    want.append((row[14], int(row[12]), ic, row[2], occ))
got = [(r.auth.chain, r.auth.number, r.icode, a.name, a.occupancy) for r in s3.residues for a in r.atoms]
print("got ", got, "\\nwant", want)
sys.exit(1 if got != want else 0)
'''


def _dispatch(spec):
    kind, sp = spec
    return job_pdb(sp) if kind == "pdb" else job_cif(sp)


def run(rep, tier):
    from vlib.core import Violation
    from vlib.par import pmap, Crashed
    specs = [("pdb", ("two-models-far", "sym")), ("pdb", ("two-models-near", "sym")),
             ("pdb", ("altloc-low-high", "none")), ("pdb", ("clash", "none")),
             ("pdb", ("no-model-records", "sym")), ("pdb", ("altloc-three", "none")), ("pdb", ("two-models-sparse", "none")),
             ("pdb", ("two-models-descending", "none")), ("cif", "one-model"), ("cif", "two-models")]
    if tier != "quick":
        specs += [("pdb", ("two-models-two-atoms", "sym")), ("pdb", ("two-models-near", "none")), ("pdb", ("altloc-low-high", "sym")),
                  ("pdb", ("clash", "sym")), ("pdb", ("two-models-far", "none")), ("pdb", ("altloc-high-low", "none"))]
    results = pmap(_dispatch, specs)
    for (kind, sp), r in zip(specs, results):
        if isinstance(r, Crashed):
            rep.harness_error(f"job {sp} crashed: {r.why}")
            continue
        rep.add(states=r["paths"], transitions=max(r["queries"], 1), solver_s=r["solver_s"])
        rep.cov.setdefault("groups", []).append({k: r.get(k) for k in ("name", "paths", "queries", "unknown", "wall_s")})
        if r["reach"]:
            rep.add(reachability_witnesses=1)
        else:
            rep.harness_error(f"{r['name']}: no path returns a structure")
        for v in r["verdicts"]:
            rep.add(obligations=1)
            if v["v"] == "unsat":
                rep.add(discharged=1)
            elif v["v"] == "sat":
                rep.add(discharged=1)
                if v["w"] is None:
                    rep.harness_error(f"{r['name']}: {v['ob']} (no witness)")
                else:
                    rep.violation(Violation(v["key"] + ":" + (sp[0] if kind == "pdb" else sp), f"{r['name']}: {v['ob']}",
                                            (REPLAY_PDB if kind == "pdb" else REPLAY_CIF).format(w=v["w"]), witness=v["w"]))
            else:
                rep.add(undecided=1)
        rep.sample({"group": r["name"], "paths": r["paths"], "verdicts": [(v["ob"][:80], v["v"]) for v in r["verdicts"][:2]]}, cap=9)
    rep.add(functions_encoded=["parser.read_3d_structure", "parser.parse_pdb", "parser.parse_cif", "parser.filter_clashing_atoms", "parser.group_atoms",
                               "parser.get_residue_name / get_one_letter_name / detect_one_letter_name", "parser.try_parse_int", "parser.is_cif"],
            bounds={"PDB": "2-4 ATOM lines in 1-2 models; symbolic: both model numbers (0..9999), chain (1 alphanumeric), residue number (-999..9999), "
                    "insertion code, alternate location, serial; concrete per configuration: atom / residue names, coordinates, occupancies",
                    "mmCIF": "2 atom_site rows; symbolic: asym ids (1-2 chars), seq id (-999..999), insertion code cell over {?, ., A, B}, model number, "
                             "occupancy cell over {1.00, 0.50, ?, .}", "requested model": "None or any integer",
                    "outside": "the mmcif tokenizer, float() of symbolic text (numeric text is concrete), more than 4 atoms, MODRES / entity tables"},
            engines=["E2 symx bounded strings + z3; scipy KD-tree natively on concrete coordinates"],
            rule="states = explored paths (identity / model equality patterns); transitions = solver queries; per path: atom set vs the reference "
                 "reader (same path) and field obligations",
            stubs=["file object (readlines / seek)", "IoAdapterPy.readFile -> atom_site table with symbolic cells"])
    rep.assume("on an exact occupancy tie between two atoms closer than 0.5 A either survivor is accepted",
               "an absent MODEL record means model 1")
