"""C04 — stacking annotation equals its geometric definition (E2, NRA with <= 7 essential free reals).

The real `annotator.find_stackings` runs on two residues whose base atoms sit at c +/- u (symbolic spread, so the
centroid must come out as c), plus a far-away sugar atom that must not count; base normals are injected unit vectors;
the second centroid is offset by d along a frame axis; KD-tree = exact stub.
"""
import fractions
import math
import multiprocessing
import sys
import time

PID = "C04"
F = fractions.Fraction
DELTA = 1e-6

IDENT = {
    "same-chain-ascending": (("A", 1, None), ("A", 2, None)),
    "same-chain-descending": (("A", 7, None), ("A", 3, None)),
    "chain-order": (("B", 1, None), ("A", 5, None)),
    "insertion-code": (("A", 4, "A"), ("A", 4, None)),
    "negative-number": (("A", -2, None), ("A", -10, None)),
}


class KD:
    def __init__(self, pts):
        self.pts = [list(p) for p in pts]

    def query_pairs(self, r):
        out = set()
        for i in range(len(self.pts)):
            for j in range(i + 1, len(self.pts)):
                d2 = sum((self.pts[i][k] - self.pts[j][k]) * (self.pts[i][k] - self.pts[j][k]) for k in range(3))
                if d2 <= r * r:
                    out.add((i, j))
        return out


def cosq(deg, shift):
    return F(math.cos(math.radians(deg) + shift))


def job(spec):
    types, ident, axis = spec[:3]
    lead = len(spec) > 3 and spec[3]      # a leading residue without any base atom (amino acid) in front of the two nucleotides
    hist = len(spec) > 4 and spec[4]      # an earlier call in the same process on residues with the same identities, the second one 50 A further away
    sys.path.insert(0, "/verif")
    import z3
    from symx.engine import Engine, SReal
    from symx.shims import MathShim, arr
    import rnapolis.annotator as A
    from rnapolis.tertiary import Atom, Residue3D, Structure3D, BASE_ATOMS
    from rnapolis.common import ResidueAuth
    A.KDTree = KD
    A.math = MathShim()
    eng = Engine(timeout_ms=10000, obligation_timeout_ms=120000)
    d = eng.real("d")
    eng.assume(d.e > 0, d.e <= 9)
    n1 = [eng.real(f"n1{c}") for c in "xyz"]
    n2 = [eng.real(f"n2{c}") for c in "xyz"]
    eng.assume(sum((c.e * c.e for c in n1), z3.RealVal(0)) == 1, sum((c.e * c.e for c in n2), z3.RealVal(0)) == 1)
    u = [eng.real(f"u{c}") for c in "xyz"]
    o = [eng.real(f"o{c}") for c in "xyz"]
    (id1, id2) = IDENT[ident]

    def mk(idt, name, center, normal):
        auth = ResidueAuth(idt[0], idt[1], idt[2], name)
        names = BASE_ATOMS[name]
        ats = []
        for k, (an, sg) in enumerate(((names[0], 1), (names[-1], -1))):
            ats.append(Atom(None, None, auth, 1, an, center[0] + sg * u[0], center[1] + sg * u[1], center[2] + sg * u[2], 1.0))
        ats.append(Atom(None, None, auth, 1, "C1'", center[0] + 40, center[1] - 30, center[2] + 20, 1.0))   # not a base atom
        r = Residue3D(None, auth, 1, name, tuple(ats))
        r.__dict__["base_normal_vector"] = arr(*normal)
        return r

    def run():
        c1 = [o[0] * 1, o[1] * 1, o[2] * 1]
        c2 = [o[0] * 1, o[1] * 1, o[2] * 1]
        c2[axis] = c2[axis] + d
        r1, r2 = mk(id1, types[0], c1, n1), mk(id2, types[1], c2, n2)
        rs = [r1, r2]
        if lead:
            auth = ResidueAuth("0", 1, None, "GLY")
            gly = Residue3D(None, auth, 1, "X", (Atom(None, None, auth, 1, "CA", c1[0] + 1, c1[1] + 1, c1[2] + 1, 1.0),))
            gly.__dict__["base_normal_vector"] = None
            rs = [gly] + rs
        if hist:
            far = list(c2)
            far[axis] = far[axis] + 50
            A.find_stackings(Structure3D([mk(id1, types[0], c1, n1), mk(id2, types[1], far, n2)]))
        return A.find_stackings(Structure3D(rs))
    t0 = time.time()
    paths = eng.explore(run)
    res = {"name": f"{types}:{ident}:ax{axis}:lead{int(bool(lead))}" + (":after-far-copy" if hist else ""), "paths": len(paths), "verdicts": [], "reach_listed": 0}
    dot = sum((a.e * b.e for a, b in zip(n1, n2)), z3.RealVal(0))
    absdot = z3.If(dot >= 0, dot, -dot)
    # v = c_first - c_second in input order = -d * e_axis ; cos(v, n) = -n[axis]
    cv1, cv2 = -n1[axis].e, -n2[axis].e
    maxcv = z3.If(cv1 >= cv2, cv1, cv2)
    first_lower = (id1[0], id1[1], id1[2] or " ") < (id2[0], id2[1], id2[2] or " ")

    def witness(m):
        def val(e):
            r = m.eval(e, model_completion=True)
            return float(r.as_fraction()) if z3.is_rational_value(r) else float(r.approx(15).as_fraction())
        return {"types": types, "ident": ident, "axis": axis, "lead": bool(lead), "hist": bool(hist), "d": val(d.e), "n1": [val(c.e) for c in n1], "n2": [val(c.e) for c in n2],
                "u": [val(c.e) for c in u], "o": [val(c.e) for c in o]}
    for path, out in paths:
        if isinstance(out, Exception):
            v, m, _ = eng.prove(path, z3.BoolVal(True))
            res["verdicts"].append({"ob": f"find_stackings raised {type(out).__name__}: {out}", "v": v, "key": "find_stackings:exception",
                                    "w": witness(m) if m is not None else None, "listed": None})
            continue
        if len(out) > 1:
            res["verdicts"].append({"ob": f"{len(out)} stackings listed for one pair", "v": "sat", "key": "find_stackings:duplicate", "w": None})
            continue
        if out:
            res["reach_listed"] += 1
            s = out[0]
            got = ((s.nt1.auth.chain, s.nt1.auth.number, s.nt1.auth.icode), (s.nt2.auth.chain, s.nt2.auth.number, s.nt2.auth.icode))
            want = (id1, id2) if first_lower else (id2, id1)
            if got != want:
                v, m, _ = eng.prove(path, z3.BoolVal(True))
                res["verdicts"].append({"ob": f"stacking lists {got}, lower residue first would be {want}", "v": v, "key": "find_stackings:order",
                                        "w": witness(m) if m is not None else None, "listed": True, "expect_first": want[0]})
            rej = z3.Or(d.e > 6 + F(DELTA), absdot < cosq(35, +DELTA), maxcv < cosq(45, +DELTA))
            v, m, _ = eng.prove(path, rej, race=True)
            res["verdicts"].append({"ob": "listed although outside the definition (distance 6 / normals 35 deg / offset 45 deg) by margin",
                                    "v": v, "key": "find_stackings:definition", "w": witness(m) if m is not None else None, "listed": True})
            same = s.topology.value in ("upward", "downward")
            v, m, _ = eng.prove(path, (dot < -F(DELTA)) if same else (dot > F(DELTA)), race=True)
            res["verdicts"].append({"ob": f"topology {s.topology.value} contradicts the sign of the normals' dot product", "v": v,
                                    "key": "find_stackings:topology", "w": witness(m) if m is not None else None, "listed": True,
                                    "topology": s.topology.value})
        else:
            acc = z3.And(d.e < 6 - F(DELTA), absdot > cosq(35, -DELTA), maxcv > cosq(45, -DELTA))
            v, m, _ = eng.prove(path, acc, race=True)
            res["verdicts"].append({"ob": "not listed although inside the definition by margin", "v": v, "key": "find_stackings:definition",
                                    "w": witness(m) if m is not None else None, "listed": False})
    res.update(queries=eng.nq, solver_s=round(eng.tq, 2), unknown=eng.unknown, wall_s=round(time.time() - t0, 2))
    return res


REPLAY = '''
import numpy, math
from rnapolis.annotator import find_stackings
from rnapolis.tertiary import Atom, Residue3D, Structure3D, BASE_ATOMS
from rnapolis.common import ResidueAuth
w = {w!r}; IDENT = {ident!r}; v = {v!r}
id1, id2 = IDENT[w["ident"]]
def mk(idt, name, c, n):
    auth = ResidueAuth(idt[0], idt[1], idt[2], name); names = BASE_ATOMS[name]; u = w["u"]
    ats = [Atom(None, None, auth, 1, an, c[0] + sg * u[0], c[1] + sg * u[1], c[2] + sg * u[2], 1.0) for an, sg in ((names[0], 1), (names[-1], -1))]
    ats.append(Atom(None, None, auth, 1, "C1'", c[0] + 40, c[1] - 30, c[2] + 20, 1.0))
    r = Residue3D(None, auth, 1, name, tuple(ats)); r.__dict__["base_normal_vector"] = numpy.array(n, dtype=float); return r
c1 = list(w["o"]); c2 = list(w["o"]); c2[w["axis"]] += w["d"]
rs = [mk(id1, w["types"][0], c1, w["n1"]), mk(id2, w["types"][1], c2, w["n2"])]
if w.get("lead"):
    auth = ResidueAuth("0", 1, None, "GLY")
    gly = Residue3D(None, auth, 1, "X", (Atom(None, None, auth, 1, "CA", c1[0] + 1, c1[1] + 1, c1[2] + 1, 1.0),)); gly.__dict__["base_normal_vector"] = None
    rs = [gly] + rs
try:
    if w.get("hist"):
        far = list(c2); far[w["axis"]] += 50
        find_stackings(Structure3D([mk(id1, w["types"][0], c1, w["n1"]), mk(id2, w["types"][1], far, w["n2"])]))
    out = find_stackings(Structure3D(rs))
except Exception as e:
    print("find_stackings raised", type(e).__name__, e); sys.exit(1)
n1, n2 = numpy.array(w["n1"]), numpy.array(w["n2"]); n1 /= numpy.linalg.norm(n1); n2 /= numpy.linalg.norm(n2)
dot = float(n1 @ n2); cv = max(-n1[w["axis"]], -n2[w["axis"]])
inside = w["d"] <= 6 and abs(dot) >= math.cos(math.radians(35)) and cv >= math.cos(math.radians(45))
print("d", w["d"], "|cos(n1,n2)|", abs(dot), "max cos(v,n)", cv, "definition:", inside, "listed:", [(s.nt1.auth, s.nt2.auth, s.topology.value) for s in out])
bad = False
if v["key"].endswith("definition"): bad = (len(out) > 0) != inside
elif v["key"].endswith("topology"): bad = bool(out) and ((out[0].topology.value in ("upward", "downward")) != (dot > 0))
elif v["key"].endswith("order"): bad = bool(out) and (out[0].nt1.auth.chain, out[0].nt1.auth.number, out[0].nt1.auth.icode) != tuple(v["expect_first"])
else: bad = False      # an exception seen only by the symbolic run is not a violation unless the real code raises too (it did not: we got here)
sys.exit(1 if bad else 0)
'''


def run(rep, tier):
    from vlib.core import Violation, ncpu
    specs = [(("A", "C"), "same-chain-ascending", 2), (("G", "U"), "same-chain-descending", 0), (("C", "G"), "chain-order", 1),
             (("U", "A"), "insertion-code", 2, True), (("A", "C"), "same-chain-ascending", 1, False, True)]
    if tier != "quick":
        specs += [(("T", "G"), "negative-number", 0), (("A", "A"), "same-chain-ascending", 0, True), (("G", "G"), "same-chain-ascending", 1),
                  (("C", "U"), "same-chain-descending", 2), (("U", "T"), "chain-order", 0), (("G", "C"), "insertion-code", 1),
                  (("A", "G"), "negative-number", 2), (("T", "T"), "same-chain-descending", 1)]
    from vlib.par import pmap, Crashed
    results = pmap(job, specs)
    for k, r in enumerate(results):
        if isinstance(r, Crashed):
            rep.harness_error(f"job {r.item} crashed: {r.why}")
            results[k] = {"name": str(r.item), "paths": 0, "queries": 0, "solver_s": 0.0, "verdicts": [], "unknown": 0, "wall_s": 0, "reach_listed": 1, "reach": 1, "reached": 1, "missing_classes": []}
    for r in results:
        rep.add(states=r["paths"], transitions=r["queries"], solver_s=r["solver_s"])
        rep.cov.setdefault("groups", []).append({k: r.get(k) for k in ("name", "paths", "queries", "unknown", "wall_s")})
        if r["reach_listed"]:
            rep.add(reachability_witnesses=1)
        else:
            rep.harness_error(f"{r['name']}: no path lists a stacking (vacuous)")
        for v in r["verdicts"]:
            rep.add(obligations=1)
            if v["v"] == "unsat":
                rep.add(discharged=1)
            elif v["v"] == "sat":
                rep.add(discharged=1)
                if v.get("w") is None:
                    rep.harness_error(f"{r['name']}: {v['ob']} (no model)")
                else:
                    vv = {k: v.get(k) for k in ("key", "listed", "expect_first", "topology")}
                    rep.violation(Violation(v["key"], f"{r['name']}: {v['ob']}; e.g. {v['w']}",
                                            REPLAY.format(w=v["w"], ident=IDENT, v=vv), witness=v["w"]))
            else:
                rep.add(undecided=1)
                rep.notes.append(f"{r['name']}: {v['ob']}: {v['v']}")
        rep.sample({"group": r["name"], "paths": r["paths"], "verdicts": [(v["ob"][:60], v["v"]) for v in r["verdicts"][:3]]}, cap=6)
    rep.add(functions_encoded=["annotator.find_stackings", "annotator.angle_between_vectors", "Residue3D.find_atom", "Residue3D.__lt__"],
            bounds={"residues": 2, "configurations": [list(map(str, s)) for s in specs],
                    "free reals": "d in (0,9], unit normals n1,n2 (6 reals, 2 constraints), atom spread u and offset o (cancel linearly)",
                    "outside": "general rotations of the centroid offset (axis-aligned only), more than two residues (ordering of several "
                               "stackings is checked in C11), realistic atom sets (two base atoms + one sugar atom per residue)"},
            engines=["E2 symx + z3 NRA; external z3 4.8.12 / z3-new raced on the final obligations"],
            rule="states = paths of the real find_stackings; transitions = solver queries; obligations per path in margin form (1e-6)",
            stubs=["scipy KDTree -> exact stub", "base_normal_vector injected (unit vectors)", "math.acos/degrees -> monotone comparison of cosines"])
    rep.assume("the centroid-to-centroid vector is taken from the first to... as c_first - c_second in input order (the statement leaves its "
               "direction open; under this reading the pinned tree satisfies it)",
               "reals for doubles; 1e-6 undecided band around the 6 A / 35 deg / 45 deg thresholds")
