"""C18 — torsion angles follow the IUPAC convention in both implementations (E2, NRA).

The real `tertiary.calculate_torsion_angle_coords` / `torsion_angle`, `tertiary_v2.calculate_torsion_angle`
and `Residue3D.chi` / `chi_class` run on z3 reals.  Points are built as the statement says (canonical
frame: p2 = o, p3 = o + l e3, p1 = p2 + (a, 0, b) with a > 0, p4 = p3 + (x, y, z)); the prescribed dihedral
phi is the polar angle of (x, y).  The functions return atan2(Y, X) (never evaluated): the obligation is
    (Y, X) = k (y, x) with k > 0        i.e.   Y x - X y = 0  and  X x + Y y > 0
"""
import fractions
import multiprocessing
import sys
import time

PID = "C18"
F = fractions.Fraction

# proper rotations with rational entries: identity, the other 5 signed axis permutations, 2 dense rotations
FRAMES = {
    "xyz": [[1, 0, 0], [0, 1, 0], [0, 0, 1]],
    "yzx": [[0, 1, 0], [0, 0, 1], [1, 0, 0]],
    "zxy": [[0, 0, 1], [1, 0, 0], [0, 1, 0]],
    "xzy-": [[1, 0, 0], [0, 0, 1], [0, -1, 0]],
    "zyx-": [[0, 0, 1], [0, 1, 0], [-1, 0, 0]],
    "yxz-": [[0, 1, 0], [1, 0, 0], [0, 0, -1]],
}
# dense rational rotations (all nine entries non-zero).  Measured: the main obligation does not finish within 600 s on
# any of z3 5.1.0 / z3 4.8.12 in these frames, so they are NOT part of the claim; they are kept for `v2`, where the
# counterexample (sign) is found in milliseconds in any frame.
DENSE = {
    "r3": [[F(2, 3), F(-1, 3), F(2, 3)], [F(2, 3), F(2, 3), F(-1, 3)], [F(-1, 3), F(2, 3), F(2, 3)]],
    "r7": [[F(2, 7), F(3, 7), F(6, 7)], [F(3, 7), F(-6, 7), F(2, 7)], [F(6, 7), F(2, 7), F(-3, 7)]],
}


def _det(m):
    return (m[0][0] * (m[1][1] * m[2][2] - m[1][2] * m[2][1]) - m[0][1] * (m[1][0] * m[2][2] - m[1][2] * m[2][0])
            + m[0][2] * (m[1][0] * m[2][1] - m[1][1] * m[2][0]))


def frame_matrix(name):
    m = [[F(x) for x in row] for row in {**FRAMES, **DENSE}[name]]
    if _det(m) < 0:        # make it a proper rotation
        m = [[-x for x in row] for row in m]
    for i in range(3):
        for j in range(3):
            assert sum(m[i][k] * m[j][k] for k in range(3)) == (1 if i == j else 0)
    assert _det(m) == 1
    return m


def setup(eng, frame, offset=True):
    """symbolic canonical geometry -> four points in the given frame (+ symbolic offset)"""
    import z3
    from symx.shims import arr
    a, b, l, x, y, z = [eng.real(n) for n in "ablxyz"]
    # box containing the statement's domain (bond lengths 0.8-2.5, bond angles 20-160 degrees)
    eng.assume(a.e >= F(27, 100), a.e <= F(5, 2), b.e >= F(-5, 2), b.e <= F(5, 2), l.e >= F(4, 5), l.e <= F(5, 2),
               x.e * x.e + y.e * y.e >= F(729, 10000), x.e >= F(-5, 2), x.e <= F(5, 2), y.e >= F(-5, 2), y.e <= F(5, 2),
               z.e >= F(-5, 2), z.e <= F(5, 2))
    R = frame_matrix(frame)
    if offset:
        o = [eng.real(n) for n in ("ox", "oy", "oz")]
    else:
        o = [eng.const(0)] * 3
    q = [(a, 0, b), (0, 0, 0), (0, 0, l), (x, y, z + l)]

    def place(c):
        return arr(*[o[i] + sum((c[k] * R[i][k] for k in range(3)), eng.const(0)) for i in range(3)])
    P = [place(c) for c in q]
    return (a, b, l, x, y, z), P


def install_shims():
    import rnapolis.tertiary as T
    import rnapolis.tertiary_v2 as T2
    from symx.shims import MathShim, NpShim
    T.math = MathShim()
    T2.np = NpShim()
    return T, T2


def prop_is_phi(out, x, y, sign=1):
    """negated post-condition: NOT( (Y, X) = k (sign*y, x), k > 0 )"""
    import z3
    from symx.engine import _zr
    Y, X = _zr(out.y), _zr(out.x)
    return z3.Or(Y * x.e - X * (sign * y.e) != 0, X * x.e + Y * (sign * y.e) <= 0)


def job(spec):
    """one obligation group in its own process: returns dict(name, verdicts..., stats)"""
    kind, frame = spec
    sys.path.insert(0, "/verif")
    import z3
    from symx.engine import Engine
    from symx.shims import Atan2
    T, T2 = install_shims()
    eng = Engine(timeout_ms=8000, obligation_timeout_ms=240000)
    (a, b, l, x, y, z), P = setup(eng, frame, offset=(not kind.startswith("chi")))
    res = {"name": f"{kind}@{frame}", "verdicts": [], "paths": 0, "queries": 0, "solver_s": 0.0, "unknown": 0, "witness": None}
    t0 = time.time()

    def record(tag, verdict, model=None, key=None):
        w = None
        if verdict == "sat" and model is not None:
            def val(v):
                r = model.eval(v.e, model_completion=True)
                try:
                    return float(r.as_fraction())
                except Exception:  # noqa: BLE001  algebraic number
                    return float(r.approx(20).as_fraction())
            w = {"a": val(a), "b": val(b), "l": val(l), "x": val(x), "y": val(y), "z": val(z), "frame": frame}
        res["verdicts"].append({"obligation": tag, "verdict": verdict, "witness": w, "key": key})

    if kind in ("v1", "v1atoms", "v2"):
        if kind == "v1":
            fn = lambda: T.calculate_torsion_angle_coords(*P)   # noqa: E731
        elif kind == "v2":
            fn = lambda: T2.calculate_torsion_angle(*P)          # noqa: E731
        else:
            def fn():
                ats = [T.Atom(None, None, None, 1, f"X{i}", p[0], p[1], p[2], 1.0) for i, p in enumerate(P)]
                return T.torsion_angle(*ats)
        paths = eng.explore(fn)
        res["paths"] = len(paths)
        reached = 0
        for path, out in paths:
            if isinstance(out, Atan2):
                reached += 1
                v, m, dt = eng.prove(path, prop_is_phi(out, x, y), race=True)
                record("returns the constructed dihedral", v, m, key=f"{'tertiary_v2.calculate_torsion_angle' if kind == 'v2' else 'tertiary.calculate_torsion_angle_coords'}:sign")
                if kind == "v2" and v == "sat":
                    # pin the recorded finding down: the value must be exactly -phi; anything else is a different violation
                    v2_, m2_, _ = eng.prove(path, prop_is_phi(out, x, y, sign=-1), race=True)
                    record("(characterisation of the known finding) returns exactly the negated dihedral", v2_, m2_,
                           key="tertiary_v2.calculate_torsion_angle:other-than-negation")
            else:
                # a degenerate return (0.0 / NaN) must be infeasible inside the non-degenerate domain
                v, m, dt = eng.prove(path, z3.BoolVal(True), race=True)
                record(f"a non-degenerate input returns {out!r} (path must be infeasible)", v, m, key=f"{kind}:degenerate-return")
        res["reached"] = reached
    elif kind in ("reverse", "mirror", "agree"):
        def fn():
            if kind == "reverse":
                return T.calculate_torsion_angle_coords(*P), T.calculate_torsion_angle_coords(*P[::-1])
            if kind == "mirror":
                M = [p * [-1, 1, 1] for p in P]
                return T.calculate_torsion_angle_coords(*P), T.calculate_torsion_angle_coords(*M)
            return T.calculate_torsion_angle_coords(*P), T2.calculate_torsion_angle(*P)
        paths = eng.explore(fn)
        res["paths"] = len(paths)
        for path, out in paths:
            if isinstance(out, tuple) and all(isinstance(o, Atan2) for o in out):
                from symx.engine import _zr
                (Y1, X1), (Y2, X2) = (_zr(out[0].y), _zr(out[0].x)), (_zr(out[1].y), _zr(out[1].x))
                sg = -1 if kind == "mirror" else 1
                neg = z3.Or(Y1 * X2 - X1 * (sg * Y2) != 0, X1 * X2 + Y1 * (sg * Y2) <= 0)
                v, m, dt = eng.prove(path, neg, race=True)
                record({"reverse": "reversing the point order keeps the value", "mirror": "mirroring negates the value",
                        "agree": "both implementations agree"}[kind], v, m,
                       key={"agree": "tertiary_v2.calculate_torsion_angle:sign"}.get(kind, f"tertiary.calculate_torsion_angle_coords:{kind}"))
            else:
                v, m, dt = eng.prove(path, z3.BoolVal(True), race=True)
                record(f"a non-degenerate input returns {out!r} (path must be infeasible)", v, m, key=f"{kind}:degenerate-return")
    elif kind.startswith("chi"):
        # purine and pyrimidine residues with the four chi atoms at the constructed points
        import math
        from rnapolis.common import ResidueAuth, GlycosidicBond
        d = 1e-6
        which = {"chiG": ("G", ("O4'", "C1'", "N9", "C4")), "chiC": ("C", ("O4'", "C1'", "N1", "C2")),
                 "chiPSU": ("PSU", ("O4'", "C1'", "N1", "C2"))}[kind]
        for name, atoms in (which,):
            def fn():
                auth = ResidueAuth("A", 1, None, name)
                ats = tuple(T.Atom(None, None, auth, 1, an, p[0], p[1], p[2], 1.0) for an, p in zip(atoms, P))
                r = T.Residue3D(None, auth, 1, name if len(name) == 1 else "P", ats)
                return r.chi, r.chi_class
            paths = eng.explore(fn)
            res["paths"] += len(paths)

            def dirv(deg, shift):
                t = math.radians(deg) + shift
                return z3.RealVal(F(math.cos(t))), z3.RealVal(F(math.sin(t)))
            for path, out in paths:
                if isinstance(out, Exception):
                    record(f"chi_class raised {out!r}", "sat", None, key="Residue3D.chi_class:exception")
                    continue
                chi, cls = out
                if isinstance(chi, Atan2):
                    v, m, dt = eng.prove(path, prop_is_phi(chi, x, y))
                    record(f"{name}: chi returns the constructed dihedral", v, m, key="Residue3D.chi:sign")
                # spec with margin, written independently through cross products with the threshold directions
                c1, s1 = dirv(-30, +d)
                c2, s2 = dirv(120, -d)
                inside = z3.And(c1 * y.e - s1 * x.e > 0, x.e * s2 - y.e * c2 > 0)
                c1, s1 = dirv(-30, -d)
                c2, s2 = dirv(120, +d)
                outside = z3.Not(z3.And(c1 * y.e - s1 * x.e >= 0, x.e * s2 - y.e * c2 >= 0))
                if cls == GlycosidicBond.syn:
                    v, m, dt = eng.prove(path, outside)
                    record(f"{name}: syn reported although chi is outside (-30,120) by margin", v, m, key="Residue3D.chi_class:range")
                elif cls == GlycosidicBond.anti:
                    v, m, dt = eng.prove(path, inside)
                    record(f"{name}: anti reported although chi is inside (-30,120) by margin", v, m, key="Residue3D.chi_class:range")
                else:
                    record(f"{name}: chi_class is {cls!r}", "sat", None, key="Residue3D.chi_class:none")
            # reachability: both classes occur
            got = {str(out[1]) for _, out in paths if not isinstance(out, Exception)}
            res.setdefault("reach", []).append(sorted(got))
    res["queries"] = eng.nq
    res["solver_s"] = round(eng.tq, 3)
    res["unknown"] = eng.unknown
    res["wall_s"] = round(time.time() - t0, 2)
    return res


REPLAY = '''
import numpy, math
from rnapolis.tertiary import calculate_torsion_angle_coords
from rnapolis.tertiary_v2 import calculate_torsion_angle
w = {w!r}
R = {R!r}
def place(c): return numpy.array([sum(c[k] * R[i][k] for k in range(3)) for i in range(3)], dtype=float)
P = [place(c) for c in ((w["a"], 0.0, w["b"]), (0.0, 0.0, 0.0), (0.0, 0.0, w["l"]), (w["x"], w["y"], w["z"] + w["l"]))]
phi = math.atan2(w["y"], w["x"])
v1 = calculate_torsion_angle_coords(*P); v2 = calculate_torsion_angle(*P)
def same(u, v): return abs(math.atan2(math.sin(u - v), math.cos(u - v))) < 1e-6
print("constructed dihedral", phi, "tertiary", v1, "tertiary_v2", v2)
bad = []
if not same(v1, phi): bad.append("tertiary.calculate_torsion_angle_coords != phi")
if not same(v2, phi): bad.append("tertiary_v2.calculate_torsion_angle != phi")
if not same(v1, v2): bad.append("implementations disagree")
print(bad)
sys.exit(1 if any({needle!r} in b for b in bad) or ({needle!r} == "" and bad) else 0)
'''


# ------------------------------------------------------------------------------------------ torsion table (concretising mode)
_T = {}


def _table_ctx():
    """the test structure read once through both reader generations"""
    if _T:
        return _T
    import logging
    import os
    logging.disable(logging.CRITICAL)
    from rnapolis.parser import read_3d_structure
    from rnapolis.parser_v2 import parse_cif_atoms
    from vlib.core import REPO
    path = os.path.join(REPO, "tests", "1ehz-assembly-1.cif")
    with open(path) as f:
        s3 = read_3d_structure(f)
    with open(path) as f:
        df = parse_cif_atoms(f)
    _T["res"] = [r for r in s3.residues if r.is_nucleotide]
    _T["df"] = df
    return _T


def _dihedral(p):
    """IUPAC dihedral, written independently of the library"""
    import numpy as np
    b1, b2, b3 = p[1] - p[0], p[2] - p[1], p[3] - p[2]
    n1, n2 = np.cross(b1, b2), np.cross(b2, b3)
    return float(np.arctan2(np.dot(np.cross(n1, n2), b2 / np.linalg.norm(b2)), np.dot(n1, n2)))


def body_table(start, length, dup=0):
    """tertiary_v2.Structure.torsion_angles on the window of residues [start, start+length) of 1EHZ (which contains modified residues) against
    an independent IUPAC dihedral on the atoms the definitions name; the table carries the negated value (recorded finding) or nothing"""
    import math
    import numpy as np
    from harness.e1_common import log, known_keys
    from rnapolis.tertiary_v2 import Structure
    ctx = _table_ctx()
    res = ctx["res"][start:start + length]
    keys = {(r.auth.chain, str(r.auth.number)) for r in res}
    df = ctx["df"]
    sub = df[[(str(c), str(n)) in keys for c, n in zip(df["auth_asym_id"], df["auth_seq_id"])]].copy()
    if dup:
        # alternate locations: every atom of the window's first residue is listed a second time (altloc B, occupancy 0.40, mirrored through C1'),
        # after the original copy (altloc A, occupancy 0.60).  Both reader generations must describe the first-listed, major copy.
        import pandas as pd
        r0 = res[0]
        m0 = [(str(c), str(n)) == (r0.auth.chain, str(r0.auth.number)) for c, n in zip(sub["auth_asym_id"], sub["auth_seq_id"])]
        sub["label_alt_id"] = sub["label_alt_id"].astype(object)
        first = sub[m0].copy()
        c1 = r0.find_atom("C1'")
        if c1 is not None and len(first):
            alt = first.copy()
            for k_, ax in enumerate(("Cartn_x", "Cartn_y", "Cartn_z")):
                alt[ax] = [2 * float(c1.coordinates[k_]) - float(v) for v in alt[ax]]
            alt["label_alt_id"] = "B"
            alt["occupancy"] = 0.40
            sub.loc[m0, "label_alt_id"] = "A"
            sub.loc[m0, "occupancy"] = 0.60
            pos = max(i for i, f in enumerate(m0) if f) + 1
            sub = pd.concat([sub.iloc[:pos], alt, sub.iloc[pos:]], ignore_index=True)
    sub.attrs["format"] = "mmCIF"
    problems = []
    try:
        table = Structure(sub).torsion_angles
    except Exception as e:  # noqa: BLE001
        table = None
        problems.append(f"exception {type(e).__name__}: {e}")
    DEF = {"alpha": [("O3'", -1), ("P", 0), ("O5'", 0), ("C5'", 0)], "beta": [("P", 0), ("O5'", 0), ("C5'", 0), ("C4'", 0)],
           "gamma": [("O5'", 0), ("C5'", 0), ("C4'", 0), ("C3'", 0)], "delta": [("C5'", 0), ("C4'", 0), ("C3'", 0), ("O3'", 0)],
           "epsilon": [("C4'", 0), ("C3'", 0), ("O3'", 0), ("P", 1)], "zeta": [("C3'", 0), ("O3'", 0), ("P", 1), ("O5'", 1)]}
    if table is not None:
        rows = {(str(r["chain_id"]), int(r["residue_number"])): r for _, r in table.iterrows()}
        for i, r in enumerate(res):
            row = rows.get((r.auth.chain, r.auth.number))
            if row is None:
                if length > 1:
                    problems.append(f"residue {r.full_name} has no row in the torsion table")
                continue
            for name, d in DEF.items():
                pts = []
                for an, off in d:
                    j = i + off
                    a = res[j].find_atom(an) if 0 <= j < len(res) else None
                    pts.append(None if a is None else a.coordinates)
                got = row[name]
                has = got is not None and not (isinstance(got, float) and math.isnan(got))
                if any(p is None for p in pts):
                    if has:
                        problems.append(f"{r.full_name} {name} = {got} although an atom / neighbour it needs does not exist")
                elif has and abs(math.atan2(math.sin(float(got) + _dihedral(pts)), math.cos(float(got) + _dihedral(pts)))) > 1e-6:
                    problems.append(f"{r.full_name} {name} = {math.degrees(float(got)):.2f} deg, IUPAC dihedral of the named atoms is {math.degrees(_dihedral(pts)):.2f} (table carries its negation)")
            got = row["chi"]
            has = got is not None and not (isinstance(got, float) and math.isnan(got))
            if has:
                purine = r.find_atom("N9") is not None
                names = ("O4'", "C1'", "N9", "C4") if purine else ("O4'", "C1'", "N1", "C2")
                ats = [r.find_atom(n) for n in names]
                if any(a is None for a in ats):
                    problems.append(f"{r.full_name} chi = {got} although its atoms are missing")
                else:
                    ref = _dihedral([a.coordinates for a in ats])
                    if abs(math.atan2(math.sin(float(got) + ref), math.cos(float(got) + ref))) > 1e-6:
                        problems.append(f"{r.full_name} chi = {math.degrees(float(got)):.2f} deg, glycosidic dihedral {'O4-C1-N9-C4' if purine else 'O4-C1-N1-C2'} is "
                                        f"{math.degrees(ref):.2f} (table carries its negation)")
    keys_ = ["tertiary_v2.Structure.torsion_angles"] if problems else []
    ok = all(k in known_keys(PID) for k in keys_)
    log({"p": [start, length, dup], "problems": problems[:3], "keys": keys_, "kind": "table"})
    return ok


def replay(rec):
    import harness.e1_common as ec
    saved = ec.known_keys
    ec.known_keys = lambda pid: set()
    try:
        return body_table(*rec["p"])
    finally:
        ec.known_keys = saved


def run(rep, tier):
    from vlib.core import Violation, ncpu
    frames_main = ["xyz"] if tier == "quick" else list(FRAMES)
    specs = []
    for fr in frames_main:
        specs += [("v1", fr), ("v2", fr)]
    specs += [("v1atoms", "xyz"), ("agree", "xyz")]
    if tier != "quick":
        specs += [("reverse", "xyz"), ("mirror", "xyz"), ("chiG", "xyz"), ("chiC", "xyz"), ("chiPSU", "xyz"), ("v2", "r3"), ("v2", "r7"),
                  ("agree", "zxy")]
    from vlib.par import pmap, Crashed
    results = pmap(job, specs)
    for k, r in enumerate(results):
        if isinstance(r, Crashed):
            rep.harness_error(f"job {r.item} crashed: {r.why}")
            results[k] = {"name": str(r.item), "paths": 0, "queries": 0, "solver_s": 0.0, "verdicts": [], "unknown": 0, "wall_s": 0, "reach_listed": 1, "reach": 1, "reached": 1, "missing_classes": []}
    for r in results:
        rep.add(states=r["paths"], transitions=r["queries"], solver_s=r["solver_s"])
        rep.cov.setdefault("groups", []).append({k: r[k] for k in ("name", "paths", "queries", "unknown", "wall_s")})
        if r.get("reached") or r.get("reach"):
            rep.add(reachability_witnesses=1)
        for v in r["verdicts"]:
            rep.add(obligations=1)
            if v["verdict"] == "unsat":
                rep.add(discharged=1)
            elif v["verdict"] == "sat":
                rep.add(discharged=1)
                w = v["witness"]
                if w is None:
                    rep.harness_error(f"{r['name']}: {v['obligation']} (no model)")
                    continue
                needle = "tertiary_v2" if "tertiary_v2" in (v["key"] or "") else ("tertiary.calc" if "tertiary.calc" in (v["key"] or "") else "")
                R = [[float(c) for c in row] for row in frame_matrix(w["frame"])]
                rep.violation(Violation(v["key"], f"{r['name']}: violated: {v['obligation']}; e.g. {w}",
                                        REPLAY.format(w=w, R=R, needle=needle), witness=w))
            else:
                rep.add(undecided=1)
                rep.notes.append(f"{r['name']}: {v['obligation']}: {v['verdict']}")
        rep.sample({"group": r["name"], "verdicts": [(v["obligation"], v["verdict"]) for v in r["verdicts"]][:4]})
    # torsion table of the second implementation on every residue window of a real structure (concretising mode)
    import z3
    from vlib import allsat, e1
    nres = 76
    S, Ln = z3.Int("start"), z3.Int("length")
    lens = (3,) if tier == "quick" else (2, 3, 4)
    D = z3.Int("altloc")
    models, nq, dt = allsat.allsat([S, Ln, D], [S >= 0, z3.Or([Ln == k for k in lens]), S + Ln <= nres, D >= 0, D <= 1])
    rep.add(transitions=nq, solver_s=dt)
    pt = allsat.run_family("torsion_table_windows", "harness.c18", "body_table", [tuple(m) for m in models],
                           [f"every window of {list(lens)} consecutive nucleotides of tests/1ehz-assembly-1.cif (contains modified residues)",
                            "tertiary_v2.Structure.torsion_angles vs an independent IUPAC dihedral", "with and without an alternate-location copy of the first residue's atoms"], expected=len(models), chunksize=4)
    e1.collect(rep, [pt], "harness.c18")
    rep.add(functions_encoded=["tertiary_v2.Structure.torsion_angles / connected_residues (real pandas, concretising mode)"])
    rep.add(functions_encoded=["tertiary.calculate_torsion_angle_coords", "tertiary.torsion_angle", "tertiary_v2.calculate_torsion_angle",
                               "Residue3D.chi", "Residue3D.chi_class", "Residue3D.find_atom"],
            bounds={"frames": frames_main, "free reals": "a,b,l,x,y,z (+ symbolic offset ox,oy,oz): a in [0.27,2.5], |b|<=2.5, l in [0.8,2.5], "
                    "x^2+y^2 >= 0.27^2, |x|,|y|,|z| <= 2.5 (a box containing bond lengths 0.8-2.5 and bond angles 20-160 degrees)",
                    "outside": "general rotations (only the listed rational frames), NaN/inf inputs, double rounding (reals stand in for doubles)"},
            engines=["E2 symx: real code on z3 reals, path exploration", "z3 5.1.0 NRA in process; /usr/bin/z3 4.8.12 + z3-new on SMT-LIB dumps for unknowns"],
            rule="states = explored paths of the real functions; transitions = solver queries (branch feasibility + obligations); "
                 "an obligation = path ∧ axioms ∧ ¬post must be unsat",
            stubs=["math.atan2 / numpy.arctan2 return an unevaluated Atan2(y, x); sqrt is a fresh variable s>=0, s^2=t"])
    rep.assume("doubles are modelled as reals; rounding error (~1e-13 at these magnitudes) is assumed not to flip a sign away from degeneracy",
               "the claim is per listed frame (canonical frame in quick mode, the 6 signed axis permutations in thorough mode) with arbitrary "
               "translation; dense rational rotations were tried and do not finish (600 s), so invariance under general rotations is not claimed")
