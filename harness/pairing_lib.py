"""Independent oracles for the pairing-table properties (C01, C02, C07, C12, C13, C14, C16).

Nothing here imports or calls the code under test: these are the reference definitions the
real outputs are compared with. All functions work on plain Python values (the realised
witness of a path) and are also used by the native replay scripts.
"""
import itertools
import string

OPEN = "([{<" + string.ascii_uppercase
CLOSE = ")]}>" + string.ascii_lowercase
ALPHABET = set("." + OPEN + CLOSE)
LETTERS = "AbCdEfGhIjKlMnOpQrStUvWxYz"  # pairwise distinct (position mix-ups are visible) and mixed case (modified residues are lower case)


def valid(p):
    """validity predicate of a BPSEQ pairing table: p[i] in 0..n, symmetric, no self pair"""
    n = len(p)
    for i in range(n):
        j = p[i]
        if j < 0 or j > n:
            return False
        if j == i + 1:
            return False
        if j != 0 and p[j - 1] != i + 1:
            return False
    return True


def all_pairings(n):
    """every valid pairing table on n positions (used for counting / bounds only)"""
    def rec(free):
        if not free:
            yield {}
            return
        i = free[0]
        rest = free[1:]
        for m in rec(rest):
            yield m
        for k, j in enumerate(rest):
            r2 = rest[:k] + rest[k + 1:]
            for m in rec(r2):
                d = dict(m)
                d[i] = j
                d[j] = i
                yield d
    for m in rec(list(range(1, n + 1))):
        yield [m.get(i, 0) for i in range(1, n + 1)]


def pairs_of(p):
    return {(i + 1, p[i]) for i in range(len(p)) if p[i] > i + 1}


def decode(s):
    """independent per-type stack decoder: returns (pairs as 1-based (i,j), level per pair)
    or None when the string is unbalanced / uses a foreign character"""
    st = {c: [] for c in OPEN}
    m = dict(zip(CLOSE, OPEN))
    pr = {}
    for i, c in enumerate(s):
        if c in st:
            st[c].append(i)
        elif c in m:
            if not st[m[c]]:
                return None
            pr[(st[m[c]].pop() + 1, i + 1)] = OPEN.index(m[c])
        elif c != ".":
            return None
    if any(st.values()):
        return None
    return pr


def crossing(a, b):
    return a[0] < b[0] < a[1] < b[1] or b[0] < a[0] < b[1] < a[1]


def stems_of(pairs):
    """maximal runs (i,j),(i+1,j-1),... in order of 5' end"""
    out = []
    for (i, j) in sorted(pairs):
        if out and out[-1][-1] == (i - 1, j + 1):
            out[-1].append((i, j))
        else:
            out.append([(i, j)])
    return out


def lossless_problems(p, seq, dbseq, s):
    """C01 clauses for one produced dot-bracket; returns list of problem strings"""
    pr = []
    n = len(p)
    if dbseq != seq:
        pr.append(f"sequence {dbseq!r} != {seq!r}")
    if len(s) != n:
        pr.append(f"length {len(s)} != {n}")
    if not set(s) <= ALPHABET:
        pr.append(f"foreign characters {sorted(set(s) - ALPHABET)}")
    d = decode(s)
    if d is None:
        pr.append(f"unbalanced {s!r}")
        return pr
    want = pairs_of(p)
    if set(d) != want:
        pr.append(f"decodes to {sorted(d)} instead of {sorted(want)}")
    for a, b in itertools.combinations(sorted(d), 2):
        if d[a] == d[b] and crossing(a, b):
            pr.append(f"crossing pairs {a} {b} share level {d[a]}")
            break
    return pr


def levels_by_stem(p, s):
    """(stems, level per stem) of notation s for pairing p, or None if a stem is not uniform"""
    d = decode(s)
    if d is None:
        return None
    stems = stems_of(pairs_of(p))
    lv = []
    for st in stems:
        ls = {d.get(x) for x in st}
        if len(ls) != 1 or None in ls:
            return None
        lv.append(ls.pop())
    return stems, lv


def objective(stems, lv):
    return sum((len(st) if l == 0 else -l * len(st)) for st, l in zip(stems, lv))


def conflict_edges(stems):
    return [(i, j) for i, j in itertools.combinations(range(len(stems)), 2)
            if crossing(stems[i][0], stems[j][0])]


def fcfs_reference(p):
    """first-come-first-served: stems in 5' order, each on the lowest level free of earlier crossing stems"""
    stems = stems_of(pairs_of(p))
    lv = []
    for i, st in enumerate(stems):
        used = {lv[j] for j in range(i) if crossing(stems[j][0], st[0])}
        lv.append(next(k for k in range(len(OPEN)) if k not in used))
    s = ["."] * len(p)
    for st, l in zip(stems, lv):
        for (i, j) in st:
            s[i - 1] = OPEN[l]
            s[j - 1] = CLOSE[l]
    return "".join(s)


def render(n, stems, lv):
    s = ["."] * n
    for st, l in zip(stems, lv):
        for (i, j) in st:
            s[i - 1] = OPEN[l]
            s[j - 1] = CLOSE[l]
    return "".join(s)


def padded(k, tail, block=3):
    """k leading hairpins '(.)' (one stem each, 3 positions) followed by `tail` shifted: pushes the
    stem indices of the tail's stems up by k (index-dependent logic: names like x_10_0, set order of ints >= 8)"""
    out = []
    for b in range(k):
        o = b * block
        out += [o + block] + [0] * (block - 2) + [o + 1]
    o = k * block
    out += [(x + o if x else 0) for x in tail]
    return out


def is_knotted(p):
    prs = [(i + 1, p[i]) for i in range(len(p)) if p[i] > i + 1]
    for a in range(len(prs)):
        for b in range(a + 1, len(prs)):
            if crossing(prs[a], prs[b]):
                return True
    return False


def interleaved(k, tail):
    """the tail's positions with a hairpin '(.)' inserted after each of the first k tail positions: spreads the
    tail's stems over non-consecutive stem indices"""
    n = len(tail)
    newpos = {}
    pos = 0
    layout = []
    for i in range(1, n + 1):
        pos += 1
        newpos[i] = pos
        layout.append(("t", i))
        if i <= k:
            layout.append(("h", pos + 1))
            pos += 3
    out = [0] * pos
    for kind, v in layout:
        if kind == "t":
            if tail[v - 1]:
                out[newpos[v] - 1] = newpos[tail[v - 1]]
        else:
            out[v - 1] = v + 2
            out[v + 1] = v
    return out


def star(k):
    """k-1 nested single pairs (separated by unpaired positions) all crossed by one further stem of two pairs: a group of exactly k stems whose
    conflict graph is a star, e.g. k=3: '(.(.[[.)).]]'"""
    n_in = k - 1
    s = []
    for _ in range(n_in):
        s += ["(", "."]
    s += ["[", "[", "."]
    s += [")"] * n_in
    s += [".", "]", "]"]
    return from_brackets("".join(s))


def from_brackets(s):
    d = decode(s)
    p = [0] * len(s)
    for (i, j) in d:
        p[i - 1] = j
        p[j - 1] = i
    return p


def concat(p, q, gap=1):
    """two structures one after the other (independent groups of crossing stems), `gap` unpaired positions in between"""
    off = len(p) + gap
    return list(p) + [0] * gap + [(x + off if x else 0) for x in q]
