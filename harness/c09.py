"""C09 — PDB/mmCIF write-read round trips preserve every atom field (E2; text / record layer).

Symbolic identity fields (atom name, altLoc, residue name, chain, residue number incl. negatives, insertion code, element,
model numbers, chain change) with numeric text from boundary tables go through the real `parse_pdb_atoms`, `write_pdb`,
`_format_pdb_atom_line`, `write_cif` row mapping and `parse_cif_atoms` cell decoding.  pandas is replaced by a record-level
stand-in and the mmcif adapter by a stub (both outside the claim).  Obligations: every ATOM/HETATM/TER line is exactly 80
columns; every column slice, stripped the way the reader strips it, equals the field written; MODEL/ENDMDL around every
model; a TER after every chain (including the last chain of every model); the cross paths preserve every field.
"""
import os
import sys
import tempfile
import time

PID = "C09"

NUMS = {   # boundary tables for the numeric text (x, y, z, occupancy, B)
    "plain": ((1.5, -2.25, 100.0), 1.0, 0.0),
    "wide": ((-999.999, 9999.999, -0.001), 0.5, 999.99),
    "round": ((0.0005, -0.0005, 12.3456), 0.005, 99.995),
}
# the last atom of a chain never carries 99999: the TER record that follows needs serial+1, which cannot fit five columns
SERIALS = {1: [99998], 2: [99998, 7], 3: [1, 99998, 12345]}
CHARGES = [None, "1+", "2-", "1", "-1", "1.0"]
EXPECT_CHARGE = {None: "", "1+": "1+", "2-": "2-", "1": "1+", "-1": "1-", "1.0": "1+"}


def install(eng):
    """instrumented parser_v2 with pandas / io / adapter replaced"""
    from symx import bstr as B, fakepd
    import rnapolis.parser_v2 as P2
    ns = B.instrument_module_functions(P2, ["parse_pdb_atoms", "parse_cif_atoms", "_format_pdb_atom_line", "write_pdb", "write_cif"], eng)
    ns["pd"] = fakepd.FakePd
    ns["io"] = fakepd.FakeIo
    return ns


def job_pdb(spec):
    """PDB -> frame -> PDB.  spec = (natoms, nums key, charge index, hetatm flag, lead-space names)"""
    natoms, numkey, chg, het, variant = spec
    sys.path.insert(0, "/verif")
    import z3
    from symx.engine import Engine
    from symx import bstr as B, pdbline as P, fakepd
    eng = Engine(timeout_ms=30000)
    ns = install(eng)
    (x, y, z), occ, bf = NUMS[numkey]
    charge = CHARGES[chg]
    fields, lines = [], []
    models = []
    for k in range(2):
        n, b = B.int_field(eng, f"model{k}", 4, False)
        models.append((n, P.trim(b, 4)))
    for i in range(natoms):
        f = P.sym_fields(eng, f"a{i}")
        f["serial"] = B.BStr.const(eng, str(SERIALS[natoms][i]))
        f["serial_val"] = SERIALS[natoms][i]
        if natoms >= 2 and (i > 0 or natoms == 3):
            # keep the path count down: only the identity fields stay symbolic on the additional atoms
            f["name"] = B.BStr.const(eng, ["P", "C1'", "N9"][i])
            f["altloc"] = B.BStr.const(eng, "")
            f["element"] = B.BStr.const(eng, ["P", "C", "N"][i])
            f["resname"] = B.BStr.const(eng, "G")
            if natoms == 3:
                f["icode"] = B.BStr.const(eng, "")
        if variant == "same-residue" and i > 0:
            for k in ("chain", "resseq", "resseq_n", "icode", "resname"):
                f[k] = fields[0][k]
        fields.append(f)
    # layout: one model line, then the atoms; with 3 atoms the last one sits in a second model
    lines.append(P.model_line(eng, models[0][1]) + "\n")
    model_of = []
    for i, f in enumerate(fields):
        if natoms == 3 and i == 2:
            lines.append("ENDMDL\n")
            lines.append(P.model_line(eng, models[1][1]) + "\n")
        model_of.append(1 if (natoms == 3 and i == 2) else 0)
        # the emitter places names by the PDB rule: 4-char names and names starting with a digit flush left, others after one blank
        nm = f["name"]
        lead = variant != "flush-left"
        rec = "HETATM" if (het and i == 0) else "ATOM  "
        ch = "  " if charge is None else charge.rjust(2)[:2] if charge in ("1+", "2-") else "  "
        lines.append(P.atom_line(eng, f, P.fmt83(x + i), P.fmt83(y), P.fmt83(z), occ=P.fmt62(occ), b=P.fmt62(bf), record=rec,
                                 name_lead_space=False, charge=ch) + "\n")
    lines.append("ENDMDL\n")

    class Reader:
        def seek(self, n):
            pass

        def readlines(self):
            return list(lines)

    def run():
        df = ns["parse_pdb_atoms"](Reader())
        recs = [dict(r) for r in df.records]
        if charge not in (None, "1+", "2-"):
            for r in df.records:          # charges as other writers / the mmCIF route deliver them
                r["charge"] = charge
        out = ns["write_pdb"](df)
        return recs, out
    t0 = time.time()
    paths = eng.explore(run, maxpaths=5000)
    res = {"name": f"pdb->pdb:{spec}", "paths": len(paths), "verdicts": [], "reach": 0}

    def wit(m):
        if m is None:
            return None
        return {"spec": list(spec), "lines": [B.conc(x_, m) if not isinstance(x_, str) else x_ for x_ in lines]}

    def eqz(a, b):
        e = (a == b) if isinstance(a, (B.BStr, B.Rope)) else (b == a)
        return e.e if hasattr(e, "e") else z3.BoolVal(bool(e))
    for path, out in paths:
        if isinstance(out, Exception):
            v, m, _ = eng.prove(path, z3.BoolVal(True))
            res["verdicts"].append({"ob": f"parse/write raised {type(out).__name__}: {out}", "v": v, "key": "parser_v2:exception-pdb", "w": wit(m)})
            continue
        recs, text = out
        res["reach"] += 1
        neg = []
        # 1. reading: every field of every record equals what the emitter wrote
        if len(recs) != natoms:
            neg.append(z3.BoolVal(True))
        for i, r in enumerate(recs[:natoms]):
            f = fields[i]
            neg.append(z3.Not(eqz(r["name"], f["name"])))
            neg.append(z3.Not(eqz(r["resName"], f["resname"])))
            neg.append(z3.Not(eqz(r["chainID"], f["chain"])))
            neg.append(r["resSeq"].e != f["resseq_n"].e if hasattr(r["resSeq"], "e") else z3.BoolVal(True))
            for key, fld in (("altLoc", "altloc"), ("iCode", "icode"), ("element", "element")):
                if r[key] is None:
                    neg.append(f[fld].lnz() != 0)
                else:
                    neg.append(z3.Or(f[fld].lnz() == 0, z3.Not(eqz(r[key], f[fld]))))
            if r["serial"] != f["serial_val"] or abs(r["x"] - round(x + i, 3)) > 1e-9 or abs(r["occupancy"] - float(P.fmt62(occ))) > 1e-9:
                neg.append(z3.BoolVal(True))
            mv = models[model_of[i]][0]
            neg.append(r["model"].e != mv.e if hasattr(r["model"], "e") else z3.BoolVal(True))
        v, m, _ = eng.prove(path, z3.Or(neg))
        res["verdicts"].append({"ob": "parse_pdb_atoms: a field read differs from the field written", "v": v, "key": "parser_v2.parse_pdb_atoms:fields", "w": wit(m)})
        # 2. writing: structure of the text and the 80-column layout
        out_lines = [p.flatten() if isinstance(p, B.Rope) else p for p in text.lines()]
        kinds = []
        for ln in out_lines:
            c = B.const_value(ln[:6]) if not isinstance(ln, str) else ln[:6]
            kinds.append(None if c is None else c.strip())
        same_chain = []
        for i in range(1, natoms):
            same_chain.append(eqz(fields[i]["chain"], fields[i - 1]["chain"]))
        # expected record sequence given the (path-determined) chain / model changes is decided per path by asking the solver
        atom_idx = [k for k, kd in enumerate(kinds) if kd in ("ATOM", "HETATM")]
        if len(atom_idx) != natoms or None in kinds:
            v, m, _ = eng.prove(path, z3.BoolVal(True))
            res["verdicts"].append({"ob": f"written text has records {kinds}", "v": v, "key": "parser_v2.write_pdb:records", "w": wit(m)})
            continue
        neg = []
        for i, k in enumerate(atom_idx):
            ln = out_lines[k]
            f = fields[i]
            L = ln.lnz() if hasattr(ln, "lnz") else z3.IntVal(len(ln))
            neg.append(L != 81)
            if isinstance(ln.ln, int) and ln.ln == 81:
                neg.append(z3.Not(eqz(ln[12:16].strip(), f["name"])))
                neg.append(z3.Not(eqz(ln[17:20].strip(), f["resname"])))
                neg.append(z3.Not(eqz(ln[21:22], f["chain"])))
                neg.append(z3.Not(eqz(ln[22:26].strip(), f["resseq_n"].src)))
                neg.append(z3.Not(eqz(ln[16:17].strip(), f["altloc"])))
                neg.append(z3.Not(eqz(ln[26:27].strip(), f["icode"])))
                neg.append(z3.Not(eqz(ln[76:78].strip(), f["element"])))
                neg.append(z3.Not(eqz(ln[6:11].strip(), str(f["serial_val"]))))
                neg.append(z3.Not(eqz(ln[:6], "HETATM" if (het and i == 0) else "ATOM  ")))
                neg.append(z3.Not(eqz(ln[30:54], P.fmt83(x + i) + P.fmt83(y) + P.fmt83(z))))
                neg.append(z3.Not(eqz(ln[54:66], P.fmt62(occ) + P.fmt62(bf))))
                neg.append(z3.Not(eqz(ln[78:80].strip(), EXPECT_CHARGE[charge])))
                neg.append(z3.Not(eqz(ln[66:76], " " * 10)))
                neg.append(z3.Not(eqz(ln[11:12] + ln[20:21] + ln[27:30], "     ")))
            else:
                neg.append(z3.BoolVal(True))
        v, m, _ = eng.prove(path, z3.Or(neg))
        res["verdicts"].append({"ob": "write_pdb: an ATOM/HETATM line is not 80 columns or a column slice differs from the field", "v": v,
                                "key": "parser_v2.write_pdb:atom-line", "w": wit(m)})
        # 3. MODEL / ENDMDL / TER structure: after every chain (chain change, model change, end) a TER naming the last residue
        neg = []
        want = []
        for i in range(natoms):
            newmodel = (i == 0) or (model_of[i] != model_of[i - 1] and
                                    not bool_under(eng, path, models[model_of[i]][0].e == models[model_of[i - 1]][0].e))
            if newmodel:
                if i > 0:
                    want += [("TER", i - 1), ("ENDMDL", None)]
                want.append(("MODEL", model_of[i]))
            elif not bool_under(eng, path, same_chain[i - 1]):
                want.append(("TER", i - 1))
            want.append(("ATOM", i))
        want += [("TER", natoms - 1), ("ENDMDL", None), ("END", None)]
        got_kinds = [("ATOM" if kd == "HETATM" else kd) for kd in kinds]
        if got_kinds != [w[0] for w in want]:
            neg.append(z3.BoolVal(True))
        else:
            for (kd, ref), ln in zip(want, out_lines):
                if kd == "TER":
                    f = fields[ref]
                    L = ln.lnz() if hasattr(ln, "lnz") else z3.IntVal(len(ln))
                    neg.append(L != 81)
                    if isinstance(ln.ln, int) and ln.ln == 81:
                        neg.append(z3.Not(eqz(ln[17:20].strip(), f["resname"])))
                        neg.append(z3.Not(eqz(ln[21:22], f["chain"])))
                        neg.append(z3.Not(eqz(ln[22:26].strip(), f["resseq_n"].src)))
                        neg.append(z3.Not(eqz(ln[26:27].strip(), f["icode"])))
                        neg.append(z3.Not(eqz(ln[6:11].strip(), str(f["serial_val"] + 1))))
                    else:
                        neg.append(z3.BoolVal(True))
                elif kd == "MODEL":
                    neg.append(z3.Not(eqz(ln[10:14].strip() if not isinstance(ln, str) else ln[10:14].strip(), models[ref][0].src)))
        v, m, _ = eng.prove(path, z3.Or(neg) if neg else z3.BoolVal(False))
        res["verdicts"].append({"ob": f"write_pdb: record structure {got_kinds} != MODEL/ENDMDL around every model and TER after every chain "
                                f"{[w[0] for w in want]} (or a TER/MODEL field is wrong)", "v": v, "key": "parser_v2.write_pdb:structure", "w": wit(m)})
    res.update(queries=eng.nq, solver_s=round(eng.tq, 2), unknown=eng.unknown, wall_s=round(time.time() - t0, 2))
    return res


def bool_under(eng, path, formula):
    """truth value of a formula that the path already determines"""
    import z3
    r, _ = eng.check(z3.Not(formula), path=path)
    return r == "unsat"


REPLAY_PDB = '''
import io
from rnapolis.parser_v2 import parse_pdb_atoms, write_pdb
w = {w!r}
text = "".join(w["lines"])
charge = {charge!r}
try:
    df = parse_pdb_atoms(io.StringIO(text))
    if charge not in (None, "1+", "2-"):
        df["charge"] = charge
    out = write_pdb(df)
    df2 = parse_pdb_atoms(io.StringIO(out))
except Exception as e:
    print("raised", type(e).__name__, e); sys.exit(1)
bad = []
src = [l for l in text.split("\\n") if l.startswith(("ATOM", "HETATM"))]
outl = out.split("\\n")
atoms = [l for l in outl if l.startswith(("ATOM", "HETATM"))]
for l in outl:
    if l.startswith(("ATOM", "HETATM", "TER")) and len(l) != 80: bad.append("not 80 columns: %r" % l)
for a, b in zip(src, atoms):
    for lo, hi in ((0, 6), (6, 11), (12, 16), (16, 17), (17, 20), (21, 22), (22, 26), (26, 27), (30, 54), (54, 66), (76, 78)):
        if a[lo:hi].strip() != b[lo:hi].strip(): bad.append("columns %d-%d: %r -> %r" % (lo + 1, hi, a[lo:hi], b[lo:hi]))
if len(src) != len(atoms): bad.append("atom count")
# MODEL/ENDMDL around every model, TER after every chain
kinds = [l[:6].strip() for l in outl if l.strip()]
want = []; prev = None; model = None
for l in text.split("\\n"):
    if l.startswith("MODEL"): model = l[10:14].strip()
    if l.startswith(("ATOM", "HETATM")):
        key = (model, l[21])
        if prev is None: want.append("MODEL")
        elif key[0] != prev[0]: want += ["TER", "ENDMDL", "MODEL"]
        elif key[1] != prev[1]: want.append("TER")
        want.append(l[:6].strip()); prev = key
want += ["TER", "ENDMDL", "END"]
if kinds != want: bad.append("records %s, expected %s" % (kinds, want))
print(out); print(bad)
sys.exit(1 if bad else 0)
'''


# ------------------------------------------------------------------------------------------ cross paths / mmCIF
def job_cross(spec):
    """PDB -> write_cif rows -> parse_cif_atoms -> write_pdb ; and mmCIF rows -> parse_cif_atoms -> write_cif rows"""
    mode, chg = spec
    sys.path.insert(0, "/verif")
    import z3
    from symx.engine import Engine
    from symx import bstr as B, pdbline as P
    from mmcif.api.DataCategory import DataCategory
    from mmcif.api.PdbxContainers import DataContainer
    eng = Engine(timeout_ms=30000)
    ns = install(eng)
    charge = CHARGES[chg]
    store = {}

    class Adapter:
        def writeFile(self, path, containers):
            store["written"] = containers
            with open(path, "w") as fh:
                fh.write("WRITTEN")
            return True

        def readFile(self, path):
            return store["to_read"]
    ns["IoAdapterPy"] = Adapter
    (x, y, z), occ, bf = NUMS["plain"]
    f = P.sym_fields(eng, "a0")
    f["serial"] = B.BStr.const(eng, "7")
    mn, mb = B.int_field(eng, "model0", 4, False)
    res = {"name": f"cross:{spec}", "paths": 0, "verdicts": [], "reach": 0}
    t0 = time.time()

    def eqz(a, b):
        e = (a == b) if isinstance(a, (B.BStr, B.Rope)) else (b == a)
        return e.e if hasattr(e, "e") else z3.BoolVal(bool(e))

    subset = mode == "pdb-subset-cif-pdb"
    if mode in ("pdb-cif-pdb", "pdb-subset-cif-pdb"):
        ch = "  " if charge is None else charge.rjust(2)
        lines = [P.model_line(eng, P.trim(mb, 4)) + "\n",
                 P.atom_line(eng, f, P.fmt83(x), P.fmt83(y), P.fmt83(z), occ=P.fmt62(occ), b=P.fmt62(bf), charge=ch) + "\n", "ENDMDL\n"]
        if subset:
            # a concrete first atom that is then dropped by a row selection: the table handed to the writers keeps the row label 1
            lines.insert(1, "ATOM      6  P     U B   3      91.000  92.000  93.000  0.50 11.00           P  \n")

        class Reader:
            def seek(self, n):
                pass

            def readlines(self):
                return list(lines)

        def run():
            df = ns["parse_pdb_atoms"](Reader())
            if subset:
                if len(df) != 2:
                    raise AssertionError(f"parse_pdb_atoms returned {len(df)} rows for two atom lines")
                df = df.take_rows([1])
            ns["write_cif"](df, os.path.join(tempfile.gettempdir(), "verif_c09_unused.cif"))
            cat = store["written"][0].getObj("atom_site")
            rows = [list(r) for r in cat.getRowList()]
            attrs = list(cat.getAttributeList())
            c = DataContainer("x")
            c.append(DataCategory("atom_site", attrs, rows))
            store["to_read"] = [c]
            df2 = ns["parse_cif_atoms"]("data_x\n")
            out = ns["write_pdb"](df2)
            return attrs, rows, out
        paths = eng.explore(run, maxpaths=3000)
        res["paths"] = len(paths)

        def wit(m):
            return None if m is None else {"mode": mode, "charge": charge, "lines": [B.conc(x_, m) if not isinstance(x_, str) else x_ for x_ in lines]}
        for path, out in paths:
            if isinstance(out, Exception):
                v, m, _ = eng.prove(path, z3.BoolVal(True))
                res["verdicts"].append({"ob": f"PDB->mmCIF->PDB raised {type(out).__name__}: {out}", "v": v, "key": "parser_v2:exception-cross", "w": wit(m)})
                continue
            attrs, rows, text = out
            res["reach"] += 1
            out_lines = [p.flatten() if isinstance(p, B.Rope) else p for p in text.lines()]
            atoms = [ln for ln in out_lines if (B.const_value(ln[:6]) if not isinstance(ln, str) else ln[:6]) in ("ATOM  ", "HETATM")]
            neg = []
            if len(atoms) != 1 or not isinstance(atoms[0].ln, int) or atoms[0].ln != 81:
                neg.append(z3.BoolVal(True))
            else:
                ln = atoms[0]
                neg += [z3.Not(eqz(ln[12:16].strip(), f["name"])), z3.Not(eqz(ln[17:20].strip(), f["resname"])), z3.Not(eqz(ln[21:22], f["chain"])),
                        z3.Not(eqz(ln[22:26].strip(), f["resseq_n"].src)), z3.Not(eqz(ln[16:17].strip(), f["altloc"])),
                        z3.Not(eqz(ln[26:27].strip(), f["icode"])), z3.Not(eqz(ln[76:78].strip(), f["element"])), z3.Not(eqz(ln[6:11].strip(), "7")),
                        z3.Not(eqz(ln[30:54], P.fmt83(x) + P.fmt83(y) + P.fmt83(z))), z3.Not(eqz(ln[54:66], P.fmt62(occ) + P.fmt62(bf))),
                        z3.Not(eqz(ln[78:80].strip(), EXPECT_CHARGE[charge]))]
                mdl = [l_ for l_ in out_lines if (B.const_value(l_[:5]) if not isinstance(l_, str) else l_[:5]) == "MODEL"]
                if len(mdl) != 1:
                    neg.append(z3.BoolVal(True))
                else:
                    neg.append(z3.Not(eqz(mdl[0][10:14].strip(), mn.src)))
            v, m, _ = eng.prove(path, z3.Or(neg))
            res["verdicts"].append({"ob": "PDB->mmCIF->PDB: a field of the atom line changed", "v": v, "key": "parser_v2:cross-pdb-cif-pdb", "w": wit(m)})
    else:   # cif -> cif
        ATTRS = ["group_PDB", "id", "type_symbol", "label_atom_id", "label_alt_id", "label_comp_id", "label_asym_id", "label_entity_id",
                 "label_seq_id", "pdbx_PDB_ins_code", "Cartn_x", "Cartn_y", "Cartn_z", "occupancy", "B_iso_or_equiv", "pdbx_formal_charge",
                 "auth_seq_id", "auth_comp_id", "auth_asym_id", "auth_atom_id", "pdbx_PDB_model_num"]
        null = B.bvar(eng, "null", 1, minlen=1, charset="?.")
        row = ["ATOM", "7", f["element"], f["name"], null, f["resname"], f["chain"], "1", f["resseq_n"].src, null,
               "%.3f" % x, "%.3f" % y, "%.3f" % z, "%.2f" % occ, "%.2f" % bf, null if charge is None else charge,
               f["resseq_n"].src, f["resname"], f["chain"], f["name"], mn.src]
        eng.assume(f["element"].lnz() >= 1)

        def run():
            c = DataContainer("x")
            c.append(DataCategory("atom_site", list(ATTRS), [list(row)]))
            store["to_read"] = [c]
            df = ns["parse_cif_atoms"]("data_x\n")
            ns["write_cif"](df, os.path.join(tempfile.gettempdir(), "verif_c09_unused.cif"))
            cat = store["written"][0].getObj("atom_site")
            return list(cat.getAttributeList()), [list(r) for r in cat.getRowList()]
        paths = eng.explore(run, maxpaths=3000)
        res["paths"] = len(paths)

        def wit(m):
            return None if m is None else {"mode": mode, "charge": charge, "row": [B.conc(c_, m) if not isinstance(c_, str) else c_ for c_ in row]}
        for path, out in paths:
            if isinstance(out, Exception):
                v, m, _ = eng.prove(path, z3.BoolVal(True))
                res["verdicts"].append({"ob": f"mmCIF->mmCIF raised {type(out).__name__}: {out}", "v": v, "key": "parser_v2:exception-cif", "w": wit(m)})
                continue
            attrs, rows = out
            res["reach"] += 1
            neg = []
            if attrs != ATTRS or len(rows) != 1 or len(rows[0]) != len(ATTRS):
                neg.append(z3.BoolVal(True))
            else:
                for a, got, want in zip(ATTRS, rows[0], row):
                    if want is null:
                        # a null marker may come back as either null marker
                        neg.append(z3.Not(z3.Or(eqz(got, "?"), eqz(got, "."))))
                    elif a in ("Cartn_x", "Cartn_y", "Cartn_z", "occupancy", "B_iso_or_equiv"):
                        try:
                            ok = abs(float(B.const_value(got)) - float(want)) < 1e-9
                        except Exception:  # noqa: BLE001
                            ok = False
                        neg.append(z3.BoolVal(not ok))
                    elif a == "pdbx_formal_charge" and charge is not None:
                        cv = B.const_value(got)
                        try:
                            ok = cv is not None and float(cv) == float(charge)
                        except ValueError:
                            ok = cv == charge
                        neg.append(z3.BoolVal(not ok))
                    else:
                        neg.append(z3.Not(eqz(got, want)))
            v, m, _ = eng.prove(path, z3.Or(neg))
            res["verdicts"].append({"ob": f"mmCIF->mmCIF: a cell changed ({[ (a, B.const_value(g)) for a, g in zip(attrs, rows[0])][:0]})", "v": v,
                                    "key": "parser_v2:cif-cif", "w": wit(m)})
    res.update(queries=eng.nq, solver_s=round(eng.tq, 2), unknown=eng.unknown, wall_s=round(time.time() - t0, 2))
    return res


REPLAY_CROSS = '''
import io
from rnapolis.parser_v2 import parse_pdb_atoms, parse_cif_atoms, write_pdb, write_cif
w = {w!r}
try:
    if w["mode"] in ("pdb-cif-pdb", "pdb-subset-cif-pdb"):
        text = "".join(w["lines"])
        df = parse_pdb_atoms(io.StringIO(text))
        if w["mode"] == "pdb-subset-cif-pdb": df = df[df.index >= 1]
        cif = write_cif(df); df2 = parse_cif_atoms(cif); out = write_pdb(df2)
        a = [l for l in text.split("\\n") if l.startswith("ATOM")][-1]; b = [l for l in out.split("\\n") if l.startswith("ATOM")]
        if len(b) != 1: print("atom lines written:", b); sys.exit(1)
        b = b[0]
        bad = [(lo, hi, a[lo:hi], b[lo:hi]) for lo, hi in ((6, 11), (12, 16), (16, 17), (17, 20), (21, 22), (22, 26), (26, 27), (30, 54), (54, 66), (76, 78), (78, 80))
               if a[lo:hi].strip() != b[lo:hi].strip()]
        if len(b) != 80: bad.append(("length", len(b)))
        ma = [l for l in text.split("\\n") if l.startswith("MODEL")][0][10:14].strip(); mb = [l for l in out.split("\\n") if l.startswith("MODEL")][0][10:14].strip()
        if ma != mb: bad.append(("model", ma, mb))
    else:
        ATTRS = ["group_PDB", "id", "type_symbol", "label_atom_id", "label_alt_id", "label_comp_id", "label_asym_id", "label_entity_id",
                 "label_seq_id", "pdbx_PDB_ins_code", "Cartn_x", "Cartn_y", "Cartn_z", "occupancy", "B_iso_or_equiv", "pdbx_formal_charge",
                 "auth_seq_id", "auth_comp_id", "auth_asym_id", "auth_atom_id", "pdbx_PDB_model_num"]
        text = "data_x\\nloop_\\n" + "".join("_atom_site.%s\\n" % a for a in ATTRS) + " ".join(("'%s'" % c if "'" not in c else '"%s"' % c) if c not in "?." else c for c in w["row"]) + "\\n#\\n"
        df = parse_cif_atoms(text); out = write_cif(df); df2 = parse_cif_atoms(out)
        bad = []
        for a in ATTRS:
            x, y = df.iloc[0][a], df2.iloc[0][a]
            if not ((x != x and y != y) or x is None and y is None or str(x) == str(y)): bad.append((a, x, y))
except Exception as e:
    print("raised", type(e).__name__, e); sys.exit(1)
print(bad); sys.exit(1 if bad else 0)
'''


def _dispatch(spec):
    kind, sp = spec
    return job_pdb(sp) if kind == "pdb" else job_cross(sp)


def run(rep, tier):
    from vlib.core import Violation
    from vlib.par import pmap, Crashed
    specs = [("pdb", (1, "plain", 0, False, "std")), ("pdb", (1, "wide", 1, True, "std")), ("pdb", (1, "round", 3, False, "std")),
             ("pdb", (2, "plain", 2, False, "same-residue")),
             ("pdb", (3, "plain", 0, False, "same-residue")),
             ("cross", ("pdb-cif-pdb", 0)), ("cross", ("pdb-cif-pdb", 1)), ("cross", ("pdb-cif-pdb", 2)), ("cross", ("cif-cif", 0)), ("cross", ("cif-cif", 4)),
             ("cross", ("pdb-subset-cif-pdb", 0))]
    if tier != "quick":
        specs += [("pdb", (2, "plain", 0, False, "std")), ("pdb", (1, "plain", 4, False, "std")), ("pdb", (1, "plain", 5, False, "std")), ("pdb", (2, "wide", 0, True, "std")),
                  ("pdb", (3, "plain", 0, False, "std")), ("cross", ("pdb-cif-pdb", 2)), ("cross", ("cif-cif", 3)), ("cross", ("cif-cif", 5))]
    results = pmap(_dispatch, specs)
    for (kind, sp), r in zip(specs, results):
        if isinstance(r, Crashed):
            rep.harness_error(f"job {sp} crashed: {r.why}")
            continue
        rep.add(states=r["paths"], transitions=max(r["queries"], 1), solver_s=r["solver_s"])
        rep.cov.setdefault("groups", []).append({k: r.get(k) for k in ("name", "paths", "queries", "unknown", "wall_s")})
        if r["reach"]:
            rep.add(reachability_witnesses=1)
        else:
            rep.harness_error(f"{r['name']}: no path completes the round trip")
        for v in r["verdicts"]:
            rep.add(obligations=1)
            if v["v"] == "unsat":
                rep.add(discharged=1)
            elif v["v"] == "sat":
                rep.add(discharged=1)
                if v["w"] is None:
                    rep.harness_error(f"{r['name']}: {v['ob']} (no witness)")
                elif kind == "pdb":
                    rep.violation(Violation(v["key"], f"{r['name']}: {v['ob']}", REPLAY_PDB.format(w=v["w"], charge=CHARGES[sp[2]]), witness=v["w"]))
                else:
                    rep.violation(Violation(v["key"], f"{r['name']}: {v['ob']}", REPLAY_CROSS.format(w=v["w"]), witness=v["w"]))
            else:
                rep.add(undecided=1)
        rep.sample({"group": r["name"], "paths": r["paths"], "verdicts": [(v["ob"][:80], v["v"]) for v in r["verdicts"][:2]]}, cap=10)
    rep.add(functions_encoded=["parser_v2.parse_pdb_atoms", "parser_v2._format_pdb_atom_line", "parser_v2.write_pdb", "parser_v2.write_cif (row mapping)",
                               "parser_v2.parse_cif_atoms (cell decoding)"],
            bounds={"atoms": "1-3 ATOM/HETATM records in 1-2 models; one job hands the writers a row selection of a parsed table (row label 1 at position 0)", "symbolic": "atom name 1-4 chars over [A-Z0-9'*], altLoc, residue name 1-3, chain (1 "
                    "alphanumeric), residue number -999..9999 (canonical text), insertion code, element 0-2 letters, model numbers 0..9999, "
                    "chain / residue identity shared or not", "tables": {"numbers": list(NUMS), "charges": CHARGES, "serials": SERIALS},
                    "outside": "pandas dtype coercion (to_numeric, categoricals, Int64), the mmcif tokenizer/writer (quoting), float formatting of "
                               "symbolic numbers (numeric text is concrete)"},
            engines=["E2 symx bounded strings + z3"],
            rule="states = explored paths; transitions = solver queries; per path three obligation groups (fields read, 80-column slices written, "
                 "record structure)",
            stubs=["pandas -> record-level stand-in (symx/fakepd.py)", "io.StringIO -> piece collector", "IoAdapterPy -> capture / replay of DataCategory rows"])
    rep.assume("pd.to_numeric turns numeric text into a number and anything else into NaN; astype('category') keeps values; pd.isna is true for None/NaN",
               "number text is canonical (no leading zeros, no '-0')")


# ======================================================================================================
# extension: large tables through the real pandas and the real mmcif writer (concretising mode)
# ======================================================================================================
LARGE_N = [2, 17, 300, 900]
LARGE_ROUTES = ["pdb-pdb", "pdb-cif-pdb", "cif-cif"]


def large_lines(n, nmodels, nchains):
    """canonical PDB text: n atoms per model, nchains chains per model (contiguous), 4 atoms per residue; also the expected records"""
    names = [" P  ", " C1'", " N9 ", " C4 "]
    out, recs = [], []
    for m in range(1, nmodels + 1):
        out.append("MODEL     %4d" % m + " " * 66)
        for i in range(n):
            chain = "ABC"[(i * nchains) // n]
            res = 1 + i // 4
            nm = names[i % 4]
            serial = i + 1
            x, y, z = -12.5 + 0.371 * i, 3.25 + 0.113 * (i % 50), 100.0 - 0.07 * i
            out.append("ATOM  %5d %s %3s %s%4d    %8.3f%8.3f%8.3f%6.2f%6.2f          %2s  " % (serial, nm, "G", chain, res, x, y, z, 1.0, 10.0 + (i % 7), nm.strip()[0]))
            recs.append((m, serial, nm.strip(), chain, res, round(x, 3), round(y, 3), round(z, 3)))
        out.append("ENDMDL" + " " * 74)
    return out, recs


def body_large(ni, nmodels, nchains, route):
    from harness.e1_common import log, known_keys
    import io, warnings
    warnings.filterwarnings("ignore")
    from rnapolis.parser_v2 import parse_pdb_atoms, parse_cif_atoms, write_pdb, write_cif
    n = LARGE_N[ni]
    lines, recs = large_lines(n, nmodels, nchains)
    text = "\n".join(lines) + "\nEND\n"
    problems = []

    def table(df):
        cols = ["model", "serial", "name", "chainID", "resSeq", "x", "y", "z"] if df.attrs.get("format") == "PDB" else \
               ["pdbx_PDB_model_num", "id", "auth_atom_id", "auth_asym_id", "auth_seq_id", "Cartn_x", "Cartn_y", "Cartn_z"]
        return [(int(r[0]), int(r[1]), str(r[2]), str(r[3]), int(r[4]), round(float(r[5]), 3), round(float(r[6]), 3), round(float(r[7]), 3))
                for r in df[cols].itertuples(index=False, name=None)]
    try:
        df = parse_pdb_atoms(io.StringIO(text))
        if table(df) != recs:
            problems.append("parse_pdb_atoms: the table differs from the records written")
        if LARGE_ROUTES[route] == "pdb-pdb":
            out = write_pdb(df)
        elif LARGE_ROUTES[route] == "pdb-cif-pdb":
            mid = parse_cif_atoms(write_cif(df))
            if table(mid) != recs:
                problems.append("PDB->mmCIF: the table read back from the written mmCIF differs (atom order / fields)")
            out = write_pdb(mid)
        else:
            mid = parse_cif_atoms(write_cif(df))
            again = parse_cif_atoms(write_cif(mid))
            if table(again) != recs or table(mid) != recs:
                problems.append("mmCIF->mmCIF: the table read back differs (atom order / fields)")
            out = None
        if out is not None:
            got = [ln for ln in out.split("\n") if ln.startswith(("ATOM", "HETATM", "MODEL", "ENDMDL", "TER"))]
            want_atoms = [ln for ln in lines if ln.startswith("ATOM")]
            got_atoms = [ln for ln in got if ln.startswith("ATOM")]
            if len(got_atoms) != len(want_atoms):
                problems.append(f"{len(got_atoms)} atom lines written for {len(want_atoms)}")
            else:
                for a, b2 in zip(want_atoms, got_atoms):
                    # serials may shift by the TER records; every other column must be identical
                    if a[11:] != b2[11:] or len(b2) != 80:
                        problems.append(f"atom line changed: {a!r} -> {b2!r}")
                        break
            ters = sum(1 for ln in got if ln.startswith("TER"))
            if ters != nmodels * nchains:
                problems.append(f"{ters} TER records for {nmodels} model(s) x {nchains} chain(s)")
            if sum(1 for ln in got if ln.startswith("MODEL")) != nmodels or sum(1 for ln in got if ln.startswith("ENDMDL")) != nmodels:
                problems.append("MODEL / ENDMDL records do not enclose every model")
            back = table(parse_pdb_atoms(io.StringIO(out)))
            if [r[:1] + r[2:] for r in back] != [r[:1] + r[2:] for r in recs]:
                problems.append("the written PDB reads back to a different table")
    except Exception as e:  # noqa: BLE001
        problems.append(f"exception {type(e).__name__}: {e}")
    problems = sorted(set(problems))
    keys = ["parser_v2:large-table"] if problems else []
    ok = all(k in known_keys(PID) for k in keys)
    log({"p": [ni, nmodels, nchains, route], "problems": [p_[:300] for p_ in problems[:3]], "keys": keys, "kind": "large"})
    return ok


def replay(rec):
    import harness.e1_common as ec
    saved = ec.known_keys
    ec.known_keys = lambda pid: set()
    try:
        return body_large(*rec["p"])
    finally:
        ec.known_keys = saved


_run_symbolic = run


def run(rep, tier):   # noqa: F811
    import z3
    from vlib import allsat, e1
    _run_symbolic(rep, tier)
    N, M, C, R = z3.Int("n"), z3.Int("models"), z3.Int("chains"), z3.Int("route")
    cons = [N >= 0, N < (3 if tier == "quick" else len(LARGE_N)), M >= 1, M <= 2, C >= 1, C <= 3, C != 2, R >= 0, R < len(LARGE_ROUTES), z3.Implies(N == 0, C == 1)]
    models, nq, dt = allsat.allsat([N, M, C, R], cons)
    rep.add(transitions=nq, solver_s=dt)
    exp = (1 + 2 * (2 if tier == "quick" else 3)) * 2 * 3
    pt = allsat.run_family("large_tables", "harness.c09", "body_large", [tuple(m) for m in models],
                           [f"n atoms per model in {LARGE_N[:3] if tier == 'quick' else LARGE_N}, 1-2 models, 1 or 3 chains, route in {LARGE_ROUTES}", "canonical PDB text; real pandas and real mmcif writer"],
                           expected=exp, chunksize=1)
    e1.collect(rep, [pt], "harness.c09")
    rep.cov["functions_encoded"].append("parse_pdb_atoms / write_pdb / write_cif / parse_cif_atoms natively on tables of up to 2 x 900 atoms (real pandas, real mmcif)")
    rep.cov["bounds"]["large tables"] = f"{exp} tables: atoms per model {LARGE_N[:3] if tier == 'quick' else LARGE_N}, models 1-2, chains 1 or 3, routes {LARGE_ROUTES} (z3 AllSAT over the parameter formula, native execution)"
    rep.cov["engines"].append("z3 AllSAT (concretising mode) for the large-table family")
