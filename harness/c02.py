"""C02 — pseudoknot order assignment is proper and optimal (E1 outer exploration, E3 inner verdicts).

For every pairing in the bound (and every stem-length inflation of every knotted arc
diagram in a smaller bound) the MILP the real code formulates is captured, every optimal
solution of it (z3, blocking clauses) is handed back through the solver stub so that the real
read-back and bracket filling run on each, and the deciding query is
    unsat:  exists a proper assignment over 30 levels with a strictly larger objective
for each resulting notation and for the notation produced with the real default solver.
"""
from harness.pairing_lib import *

PID = "C02"
CAP = 64


def inflate(p, lens):
    """replace the k-th arc (in 5' order) of arc diagram p by a stem of lens[k] stacked pairs"""
    n = len(p)
    arcs = sorted(pairs_of(p))
    L = {}
    for k, (i, j) in enumerate(arcs):
        L[i] = L[j] = lens[k]
    start = {}
    pos = 1
    for i in range(1, n + 1):
        start[i] = pos
        pos += L.get(i, 1)
    total = pos - 1
    out = [0] * total
    for (i, j) in arcs:
        ln = L[i]
        for t in range(ln):
            a = start[i] + t
            b = start[j] + ln - 1 - t
            out[a - 1] = b
            out[b - 1] = a
    return out


def knotted(p):
    prs = [(i + 1, p[i]) for i in range(len(p)) if p[i] > i + 1]
    for a in range(len(prs)):
        for b in range(a + 1, len(prs)):
            if crossing(prs[a], prs[b]):
                return True
    return False


def n_arcs(p):
    return sum(1 for i in range(len(p)) if p[i] > i + 1)


def check_notation(pc, s, name, problems, stats):
    """proper + optimal (solver verdict) + derived clauses for one notation of pairing pc"""
    from vlib import e3
    sl = levels_by_stem(pc, s)
    if sl is None or set(decode(s) or {}) != pairs_of(pc):
        problems.append((f"{name}: {s!r} is not a stem-uniform lossless notation", "notation"))
        return
    stems, lv = sl
    for i, j in conflict_edges(stems):
        if lv[i] == lv[j]:
            problems.append((f"{name}: crossing stems {stems[i][0]} {stems[j][0]} share level {lv[i]} in {s!r}", "proper"))
            return
    r, better = e3.spec_better_exists(stems, lv)
    stats["queries"] += 1
    if r == "sat":
        problems.append((f"{name}: {s!r} objective {objective(stems, lv)} is not optimal; better levels {better} "
                         f"objective {objective(stems, better)}", "optimal"))
    elif r != "unsat":
        stats["unknown"] += 1
    # derived clauses (consequences; evaluated independently so a wrong spec query cannot hide them)
    if not conflict_edges(stems) and any(l != 0 for l in lv):
        problems.append((f"{name}: pseudoknot-free structure uses level >0: {s!r}", "knotfree"))
    for i in range(len(stems)):
        nb = {lv[j] for j in range(len(stems)) if j != i and crossing(stems[i][0], stems[j][0])}
        if any(l not in nb for l in range(lv[i])):
            problems.append((f"{name}: stem {stems[i][0]} could be moved to a lower level in {s!r}", "movable"))
            break
    f = fcfs_reference(pc)
    fs, flv = levels_by_stem(pc, f)
    if objective(stems, lv) < objective(fs, flv):
        problems.append((f"{name}: {s!r} is worse than first-come-first-served {f!r}", "worse-than-fcfs"))


def _native(pc, seq, problems, stats, default_solver=True):
    from rnapolis.common import BpSeq, Entry
    from vlib import e3
    n = len(pc)

    def fresh():
        return BpSeq([Entry(i + 1, seq[i], pc[i]) for i in range(n)])
    # 1. the real default solver path
    if default_solver:
        d = fresh().dot_bracket
        check_notation(pc, d.structure, "dot_bracket(default solver)", problems, stats)
    # 2. capture the MILP, enumerate all its optima, hand each back through the stub
    cap = e3.CaptureSolver()
    d0 = fresh().convert_to_dot_bracket(cap)
    stems = stems_of(pairs_of(pc))
    if cap.data is None:
        # the real code decided no MILP is needed: must be because nothing crosses
        if conflict_edges(stems):
            problems.append(("no MILP formulated for a knotted structure", "formulation"))
        check_notation(pc, d0.structure, "convert_to_dot_bracket(no MILP)", problems, stats)
        return
    stats["lps"] += 1
    opt, sols, complete = e3.all_optimal(cap.data, cap=CAP)
    if not sols:
        problems.append(("captured MILP is infeasible", "formulation"))
        return
    stats["solutions"] += len(sols)
    stats["incomplete"] += 0 if complete else 1
    lem = e3.milp_lemmas(cap.data, stems)
    stats["lemma_a_" + lem["a"]] = stats.get("lemma_a_" + lem["a"], 0) + 1
    stats["lemma_b_" + lem["b"]] = stats.get("lemma_b_" + lem["b"], 0) + 1
    for k, sol in enumerate(sols):
        d = fresh().convert_to_dot_bracket(e3.CaptureSolver(("solution", sol)))
        check_notation(pc, d.structure, f"convert_to_dot_bracket(optimal MILP solution #{k})", problems, stats)


def body(p, ident=None):
    from harness.e1_common import realize, deep_realize, NoTracing, log, known_keys
    from rnapolis.common import BpSeq, Entry
    n = realize(len(p))
    seq = LETTERS[:n] if n <= 26 else "".join(LETTERS[i % 26] for i in range(n))
    problems = []
    regions = None
    try:
        b = BpSeq([Entry(i + 1, seq[i], p[i]) for i in range(n)])
        regions = [tuple(r) for r in b._BpSeq__regions]     # real stem extraction, traced
    except Exception as e:  # noqa: BLE001
        problems.append((f"exception {type(e).__name__}: {e}", "exception"))
    pc = [realize(x) for x in p]
    regions = deep_realize(regions)
    stats = {"queries": 0, "unknown": 0, "lps": 0, "solutions": 0, "incomplete": 0}
    with NoTracing():
        want = [(st[0][0], st[0][1], len(st)) for st in stems_of(pairs_of(pc))]
        if regions is not None and [tuple(r) for r in regions] != want:
            problems.append((f"regions {regions} != maximal stacked runs {want}", "regions"))
        try:
            _native(pc, seq, problems, stats, default_solver=(ident is None or ident[0] == 0))
        except Exception as e:  # noqa: BLE001
            problems.append((f"exception {type(e).__name__}: {e}", "exception"))
        keys = sorted({f"BpSeq.dot_bracket:{k}" for _, k in problems})
        ok = all(k in known_keys(PID) for k in keys)
        rec = {"p": pc, "problems": [m for m, _ in problems][:4], "keys": keys, "stats": stats, "kind": "pairing"}
        if ident is not None:
            rec["id"] = ident
        log(rec)
    return ok


def body_inflated(p, lens):
    from harness.e1_common import realize, deep_realize, NoTracing, log, known_keys
    pc = [realize(x) for x in p]
    lc = [realize(x) for x in lens]
    big = inflate(pc, lc)
    with NoTracing():
        return body(big, [pc, lc])


def body_family(kind, k, p):
    """structured families: kind 0 = k leading hairpins + knotted tail; kind 1 = hairpins interleaved into the tail"""
    from harness.e1_common import realize, NoTracing
    kc = realize(k)
    pc = [realize(x) for x in p]
    big = padded(kc, pc) if kind == 0 else interleaved(kc, pc)
    with NoTracing():
        return body(big, [kind, kc, pc])


def body_star(k):
    return body(star(k), ["star", k])


def body_concat(a, b):
    return body(concat(list(a), list(b)), ["concat", list(a), list(b)])


def replay(rec):
    import harness.e1_common as ec
    saved = ec.known_keys
    ec.known_keys = lambda pid: set()
    try:
        return body(rec["p"])
    finally:
        ec.known_keys = saved


def run(rep, tier):
    from vlib import e1
    from harness import pairing_driver as pd
    Nmax = 7 if tier == "quick" else 9
    T = 900 if tier == "quick" else 3000
    parts = pd.base_partitions(1, Nmax)
    parts.sort(key=lambda x: -(x.expected or 0))
    e1.run("harness.c02", parts, per_condition_timeout=T)
    # families: weights (stem lengths) matter for the objective; stem indices beyond what small N reaches
    if tier == "quick":
        spec = [("inflated", 4, 2, 3), ("inflated", 5, 2, 3), ("inflated", 6, 2, 3), ("inflated", 6, 3, 3), ("inflated", 8, 4, 2),
                ("padded", 4, 12), ("padded", 5, 12), ("padded", 6, 12), ("interleaved", 4), ("interleaved", 5), ("interleaved", 6), ("star", 8), ("concat", 6, 5), ("chain4", 5)]
    else:
        spec = [("inflated", n, k, 3) for n in range(4, 8) for k in range(2, n // 2 + 1)] + \
               [("inflated", 8, 2, 3), ("inflated", 8, 3, 3), ("inflated", 8, 4, 3), ("inflated", 9, 4, 2), ("inflated", 10, 5, 2)] + \
               [("padded", n, 12) for n in (4, 5, 6)] + [("interleaved", n) for n in (4, 5, 6)] + [("star", 8), ("concat", 6, 6), ("chain4", 7)]
    parts += pd.run_families(rep, "harness.c02", spec)
    e1.collect(rep, parts, "harness.c02")
    agg = {}
    for pt in parts:
        for r in pt.records:
            for k, v in (r.get("stats") or {}).items():
                agg[k] = agg.get(k, 0) + v
    rep.add(transitions=agg.get("queries", 0), obligations=agg.get("queries", 0),
            discharged=agg.get("queries", 0) - agg.get("unknown", 0), undecided=agg.get("unknown", 0))
    rep.cov["inner"] = agg
    rep.add(functions_encoded=["BpSeq.__stems_entries", "BpSeq.__regions (traced by CrossHair)",
                               "BpSeq.convert_to_dot_bracket: conflict graph, level bound, MILP formulation (captured), read-back, __make_dot_bracket "
                               "(natively per path witness, once per optimal MILP solution)", "BpSeq.dot_bracket (real default solver)"],
            bounds={"pairings N<=": Nmax, "families": [list(x) for x in spec],
                    "levels in the optimality query": 30, "optimal MILP solutions per structure": f"all, cap {CAP}",
                    "outside": "larger structures; what the external solver does beyond returning an optimum (C13)"},
            engines=["E1 CrossHair (outer exploration of pairing tables N<=Nmax)", "z3 AllSAT over the family formulas (inflated / padded / interleaved)",
                     "E3 z3 Optimize + LIA (inner verdicts)"], exhaustive=True,
            rule="states = distinct inputs reached (CrossHair path ends / AllSAT models); transitions = executions + solver queries; "
                 "obligations = partitions + one optimality query (must be unsat) per notation produced",
            stubs=["MILP solver: stub that returns, one by one, every optimal solution of the captured LP (z3)"])
    rep.assume("an external MILP solver returns an optimal solution of the problem it is given (or fails, see C13)",
               "lemmas (a) feasible => no two crossing regions share a level, (b) feasible => each region on exactly one level are "
               "reported in coverage.inner as lemma_a_unsat / lemma_b_unsat counts; they explain failures but do not decide",
               "families are enumerated by z3 AllSAT and executed natively (inputs are concretised before the real code runs)")
