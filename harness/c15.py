"""C15 — both reader generations and both file formats agree on structure content (E2; partial).

One symbolic ATOM/HETATM line goes through the residue-level reader (`parser.parse_pdb`) and the table-level reader
(`parser_v2.parse_pdb_atoms`, pandas replaced by a record-level stand-in); one `atom_site` row goes through `parser.parse_cif`
and `parser_v2.parse_cif_atoms` (mmcif adapter stubbed); the connectivity tests of both residue models run on the same
symbolic O3'/P coordinates.  Residue grouping through pandas `groupby` in `tertiary_v2.Structure.residues` is outside.
"""
import sys
import time

PID = "C15"


def job_pdb(spec):
    het, numkey = spec
    sys.path.insert(0, "/verif")
    import z3
    from symx.engine import Engine, SInt
    from symx import bstr as B, pdbline as P, fakepd
    import rnapolis.parser as P1
    from harness.c09 import install, NUMS
    eng = Engine(timeout_ms=30000)
    ns2 = install(eng)
    ns1 = B.instrument_module_functions(P1, ["parse_pdb", "filter_clashing_atoms"], eng)
    (x, y, z), occ, bf = NUMS[numkey]
    f = P.sym_fields(eng, "a0")
    f["serial"] = B.BStr.const(eng, "42")
    mn, mb = B.int_field(eng, "model0", 4, False)
    lines = [P.model_line(eng, P.trim(mb, 4)) + "\n",
             P.atom_line(eng, f, P.fmt83(x), P.fmt83(y), P.fmt83(z), occ=P.fmt62(occ), b=P.fmt62(bf), record="HETATM" if het else "ATOM  ") + "\n",
             "ENDMDL\n"]

    class Reader:
        name = "/fake/in.pdb"

        def seek(self, n):
            pass

        def readlines(self):
            return list(lines)

    def run():
        atoms, modified, _, _ = ns1["parse_pdb"](Reader())
        df = ns2["parse_pdb_atoms"](Reader())
        return atoms, [dict(r) for r in df.records]
    t0 = time.time()
    paths = eng.explore(run, maxpaths=3000)
    res = {"name": f"pdb-line:{spec}", "paths": len(paths), "verdicts": [], "reach": 0}

    def eqz(a, b):
        if isinstance(a, (B.BStr, B.Rope)):
            e = (a == b)
        elif isinstance(b, (B.BStr, B.Rope)):
            e = (b == a)
        else:
            return z3.BoolVal(a == b)
        return e.e if hasattr(e, "e") else z3.BoolVal(bool(e))

    def wit(m):
        return None if m is None else {"lines": [B.conc(x_, m) if not isinstance(x_, str) else x_ for x_ in lines]}
    for path, out in paths:
        if isinstance(out, Exception):
            v, m, _ = eng.prove(path, z3.BoolVal(True))
            res["verdicts"].append({"ob": f"a reader raised {type(out).__name__}: {out}", "v": v, "key": "readers:exception-pdb", "w": wit(m)})
            continue
        atoms, recs = out
        res["reach"] += 1
        neg = []
        if len(atoms) != 1 or len(recs) != 1:
            neg.append(z3.BoolVal(True))
        else:
            a, r = atoms[0], recs[0]
            neg.append(z3.Not(eqz(a.auth.chain, r["chainID"])))
            neg.append(z3.Not(eqz(a.auth.name, r["resName"])))
            neg.append(z3.Not(eqz(a.name, r["name"])))
            n1, n2 = a.auth.number, r["resSeq"]
            neg.append(n1.e != n2.e if isinstance(n1, SInt) and isinstance(n2, SInt) else z3.BoolVal(True))
            if a.auth.icode is None or r["iCode"] is None:
                neg.append(z3.BoolVal((a.auth.icode is None) != (r["iCode"] is None)))
            else:
                neg.append(z3.Not(eqz(a.auth.icode, r["iCode"])))
            m1, m2 = a.model, r["model"]
            neg.append(m1.e != m2.e if isinstance(m1, SInt) and isinstance(m2, SInt) else z3.BoolVal(True))
            if (a.x, a.y, a.z) != (r["x"], r["y"], r["z"]) or a.occupancy != r["occupancy"]:
                neg.append(z3.BoolVal(True))
        v, m, _ = eng.prove(path, z3.Or(neg))
        res["verdicts"].append({"ob": "the two PDB readers disagree on chain / number / insertion code / names / coordinates / model", "v": v,
                                "key": "readers:pdb-line", "w": wit(m)})
    res.update(queries=eng.nq, solver_s=round(eng.tq, 2), unknown=eng.unknown, wall_s=round(time.time() - t0, 2))
    return res


REPLAY_PDB = '''
import io
from rnapolis.parser import parse_pdb
from rnapolis.parser_v2 import parse_pdb_atoms
import pandas as pd
w = {w!r}
text = "".join(w["lines"])
try:
    f = io.StringIO(text); f.name = "x.pdb"
    atoms = parse_pdb(f)[0]; df = parse_pdb_atoms(io.StringIO(text))
except Exception as e:
    print("raised", type(e).__name__, e); sys.exit(1)
a = atoms[0]; r = df.iloc[0]
ic2 = None if pd.isna(r["iCode"]) else r["iCode"]
one = (a.auth.chain, a.auth.number, a.auth.icode, a.auth.name, a.name, a.x, a.y, a.z, a.model)
two = (r["chainID"], int(r["resSeq"]), ic2, r["resName"], r["name"], float(r["x"]), float(r["y"]), float(r["z"]), int(r["model"]))
print(one, two); sys.exit(1 if one != two else 0)
'''


def job_cif(spec):
    sys.path.insert(0, "/verif")
    import z3
    from symx.engine import Engine, SInt
    from symx import bstr as B, pdbline as P
    import rnapolis.parser as P1
    from harness.c09 import install
    from mmcif.api.DataCategory import DataCategory
    from mmcif.api.PdbxContainers import DataContainer
    eng = Engine(timeout_ms=30000)
    ns2 = install(eng)
    ns1 = B.instrument_module_functions(P1, ["try_parse_int", "parse_cif", "filter_clashing_atoms"], eng)
    f = P.sym_fields(eng, "a0")
    mn, mb = B.int_field(eng, "model0", 2, False)
    ic = B.bvar(eng, "ic", 1, minlen=1, charset="?.AB")
    ATTRS = ["group_PDB", "id", "type_symbol", "label_atom_id", "label_alt_id", "label_comp_id", "label_asym_id", "label_entity_id",
             "label_seq_id", "pdbx_PDB_ins_code", "Cartn_x", "Cartn_y", "Cartn_z", "occupancy", "B_iso_or_equiv", "pdbx_formal_charge",
             "auth_seq_id", "auth_comp_id", "auth_asym_id", "auth_atom_id", "pdbx_PDB_model_num"]
    row = ["ATOM", "7", "N", f["name"], ".", f["resname"], f["chain"], "1", f["resseq_n"].src, ic, "1.500", "-2.250", "100.000", "0.50", "12.00", "?",
           f["resseq_n"].src, f["resname"], f["chain"], f["name"], mn.src]

    class Adapter:
        def readFile(self, path):
            c = DataContainer("x")
            c.append(DataCategory("atom_site", list(ATTRS), [list(row)]))
            return [c]
    ns1["IoAdapterPy"] = Adapter
    ns2["IoAdapterPy"] = Adapter

    class Reader:
        name = "/fake/in.cif"

        def seek(self, n):
            pass

    def run():
        atoms = ns1["parse_cif"](Reader())[0]
        df = ns2["parse_cif_atoms"](Reader())
        return atoms, [dict(r) for r in df.records]
    t0 = time.time()
    paths = eng.explore(run, maxpaths=3000)
    res = {"name": "cif-row", "paths": len(paths), "verdicts": [], "reach": 0}

    def eqz(a, b):
        if isinstance(a, (B.BStr, B.Rope)):
            e = (a == b)
        elif isinstance(b, (B.BStr, B.Rope)):
            e = (b == a)
        else:
            return z3.BoolVal(a == b)
        return e.e if hasattr(e, "e") else z3.BoolVal(bool(e))

    def wit(m):
        return None if m is None else {"row": [B.conc(c_, m) if not isinstance(c_, str) else c_ for c_ in row]}
    for path, out in paths:
        if isinstance(out, Exception):
            v, m, _ = eng.prove(path, z3.BoolVal(True))
            res["verdicts"].append({"ob": f"a reader raised {type(out).__name__}: {out}", "v": v, "key": "readers:exception-cif", "w": wit(m)})
            continue
        atoms, recs = out
        res["reach"] += 1
        neg = []
        if len(atoms) != 1 or len(recs) != 1:
            neg.append(z3.BoolVal(True))
        else:
            a, r = atoms[0], recs[0]
            neg.append(z3.Not(eqz(a.auth.chain, r["auth_asym_id"])))
            neg.append(z3.Not(eqz(a.auth.name, r["auth_comp_id"])))
            neg.append(z3.Not(eqz(a.name, r["label_atom_id"])))
            n2 = r["auth_seq_id"]
            if isinstance(n2, (B.BStr, B.Rope)):       # the table-level reader keeps auth_seq_id as text
                neg.append(z3.Not(eqz(n2, a.auth.number.src if isinstance(a.auth.number, SInt) else str(a.auth.number))))
            else:
                neg.append(z3.BoolVal(True))
            if a.auth.icode is None or r["pdbx_PDB_ins_code"] is None:
                neg.append(z3.BoolVal((a.auth.icode is None) != (r["pdbx_PDB_ins_code"] is None)))
            else:
                neg.append(z3.Not(eqz(a.auth.icode, r["pdbx_PDB_ins_code"])))
            m1, m2 = a.model, r["pdbx_PDB_model_num"]
            neg.append(m1.e != m2.e if isinstance(m1, SInt) and isinstance(m2, SInt) else z3.BoolVal(True))
            if (a.x, a.y, a.z) != (r["Cartn_x"], r["Cartn_y"], r["Cartn_z"]) or a.occupancy != r["occupancy"]:
                neg.append(z3.BoolVal(True))
        v, m, _ = eng.prove(path, z3.Or(neg))
        res["verdicts"].append({"ob": "the two mmCIF readers disagree on chain / number / insertion code / names / coordinates / model", "v": v,
                                "key": "readers:cif-row", "w": wit(m)})
    res.update(queries=eng.nq, solver_s=round(eng.tq, 2), unknown=eng.unknown, wall_s=round(time.time() - t0, 2))
    return res


REPLAY_CIF = '''
import io, tempfile, os
import pandas as pd
from rnapolis.parser import parse_cif
from rnapolis.parser_v2 import parse_cif_atoms
w = {w!r}
ATTRS = ["group_PDB", "id", "type_symbol", "label_atom_id", "label_alt_id", "label_comp_id", "label_asym_id", "label_entity_id",
         "label_seq_id", "pdbx_PDB_ins_code", "Cartn_x", "Cartn_y", "Cartn_z", "occupancy", "B_iso_or_equiv", "pdbx_formal_charge",
         "auth_seq_id", "auth_comp_id", "auth_asym_id", "auth_atom_id", "pdbx_PDB_model_num"]
def q(c): return c if c in "?." else (("'%s'" % c) if "'" not in c else ('"%s"' % c))
text = "data_x\\nloop_\\n" + "".join("_atom_site.%s\\n" % a for a in ATTRS) + " ".join(q(c) for c in w["row"]) + "\\n#\\n"
d = tempfile.mkdtemp(); p = os.path.join(d, "x.cif"); open(p, "w").write(text)
try:
    with open(p) as f: atoms = parse_cif(f)[0]
    df = parse_cif_atoms(text)
except Exception as e:
    print("raised", type(e).__name__, e); sys.exit(1)
a = atoms[0]; r = df.iloc[0]
ic2 = None if pd.isna(r["pdbx_PDB_ins_code"]) else r["pdbx_PDB_ins_code"]
one = (a.auth.chain, str(a.auth.number), a.auth.icode, a.auth.name, a.name, a.x, a.y, a.z, a.model)
two = (r["auth_asym_id"], str(r["auth_seq_id"]), ic2, r["auth_comp_id"], r["label_atom_id"], float(r["Cartn_x"]), float(r["Cartn_y"]), float(r["Cartn_z"]), int(r["pdbx_PDB_model_num"]))
print(one, two); sys.exit(1 if one != two else 0)
'''


def job_conn(spec):
    """connectivity kernels of both residue models on the same symbolic O3' / P coordinates"""
    axis = spec
    sys.path.insert(0, "/verif")
    import fractions
    import z3
    from symx.engine import Engine, SBool
    from symx.shims import arr
    import rnapolis.tertiary as T1
    import rnapolis.tertiary_v2 as T2
    from rnapolis.common import ResidueAuth
    F = fractions.Fraction
    eng = Engine(timeout_ms=20000)
    d = eng.real("d")
    eng.assume(d.e >= 0, d.e <= 6)
    o = [eng.real(n) for n in ("ox", "oy", "oz")]
    p1 = [o[0] * 1, o[1] * 1, o[2] * 1]
    p2 = [o[0] * 1, o[1] * 1, o[2] * 1]
    p2[axis] = p2[axis] + d
    a1 = ResidueAuth("A", 1, None, "G")
    a2 = ResidueAuth("A", 2, None, "C")
    r1 = T1.Residue3D(None, a1, 1, "G", (T1.Atom(None, None, a1, 1, "O3'", p1[0], p1[1], p1[2], 1.0),))
    r2 = T1.Residue3D(None, a2, 1, "C", (T1.Atom(None, None, a2, 1, "P", p2[0], p2[1], p2[2], 1.0),))

    class A2:
        def __init__(self, c):
            self.coordinates = arr(*c)

    class R2(T2.Residue):
        def __init__(self, atoms):
            self._atoms = atoms

        def find_atom(self, name):
            return self._atoms.get(name)
    v2a, v2b = R2({"O3'": A2(p1)}), R2({"P": A2(p2)})

    def run():
        c1 = r1.is_connected(r2)
        c2 = T2.Residue.is_connected(v2a, v2b)
        return c1, c2
    t0 = time.time()
    paths = eng.explore(run)
    res = {"name": f"connectivity:axis{axis}", "paths": len(paths), "verdicts": [], "reach": 0}
    for path, out in paths:
        if isinstance(out, Exception):
            v, m, _ = eng.prove(path, z3.BoolVal(True))
            res["verdicts"].append({"ob": f"is_connected raised {type(out).__name__}: {out}", "v": v, "key": "is_connected:exception", "w": None})
            continue
        res["reach"] += 1
        c1, c2 = out
        e1 = c1.e if isinstance(c1, SBool) else z3.BoolVal(bool(c1))
        e2 = c2.e if isinstance(c2, SBool) else z3.BoolVal(bool(c2))
        thr = F(24, 10)
        mg = F(1, 10 ** 6)
        for nm, e in (("tertiary.Residue3D.is_connected", e1), ("tertiary_v2.Residue.is_connected", e2)):
            v, m, _ = eng.prove(path, z3.Or(z3.And(e, d.e > thr + mg), z3.And(z3.Not(e), d.e < thr - mg)))
            w = None if m is None else {"d": float(m.eval(d.e, model_completion=True).as_fraction()), "axis": axis, "which": nm}
            res["verdicts"].append({"ob": f"{nm} differs from O3'-P distance < 2.4 A (1e-6 band)", "v": v, "key": "is_connected:threshold", "w": w})
        # exact agreement of the two readers (no band): the thresholds are the doubles the code computes, taken as exact rationals
        v, m, _ = eng.prove(path, z3.Xor(e1, e2))
        w = None if m is None else {"d": float(m.eval(d.e, model_completion=True).as_fraction()), "axis": axis, "which": "agreement"}
        res["verdicts"].append({"ob": "the two readers disagree on connectivity for some O3'-P distance", "v": v, "key": "is_connected:agreement", "w": w})
    res.update(queries=eng.nq, solver_s=round(eng.tq, 2), unknown=eng.unknown, wall_s=round(time.time() - t0, 2))
    return res


REPLAY_CONN = '''
import numpy as np, pandas as pd
import rnapolis.tertiary as T1, rnapolis.tertiary_v2 as T2
from rnapolis.common import ResidueAuth
w = {w!r}
p1 = [5.0, 6.0, 7.0]; p2 = list(p1); p2[w["axis"]] += w["d"]
a1 = ResidueAuth("A", 1, None, "G"); a2 = ResidueAuth("A", 2, None, "C")
r1 = T1.Residue3D(None, a1, 1, "G", (T1.Atom(None, None, a1, 1, "O3'", *p1, 1.0),)); r2 = T1.Residue3D(None, a2, 1, "C", (T1.Atom(None, None, a2, 1, "P", *p2, 1.0),))
def df(name, p, num):
    d = pd.DataFrame([dict(record_type="ATOM", serial=1, name=name, altLoc=None, resName="G", chainID="A", resSeq=num, iCode=None, x=p[0], y=p[1], z=p[2],
                           occupancy=1.0, tempFactor=0.0, element="O", charge=None, model=1)]); d.attrs["format"] = "PDB"; return d
c1 = r1.is_connected(r2); c2 = T2.Residue(df("O3'", p1, 1)).is_connected(T2.Residue(df("P", p2, 2)))
if w["which"] == "agreement":
    # any placement whose computed distance falls between the two thresholds shows the disagreement
    for base in range(0, 40):
        for ax in range(3):
            q1 = [float(base), float(base) + 1.0, float(base) + 2.0]; q2 = list(q1); q2[ax] = round(q2[ax] + w["d"], 3)
            r1 = T1.Residue3D(None, a1, 1, "G", (T1.Atom(None, None, a1, 1, "O3'", *q1, 1.0),)); r2 = T1.Residue3D(None, a2, 1, "C", (T1.Atom(None, None, a2, 1, "P", *q2, 1.0),))
            c1 = r1.is_connected(r2); c2 = T2.Residue(df("O3'", q1, 1)).is_connected(T2.Residue(df("P", q2, 2)))
            if bool(c1) != bool(c2):
                print("O3' at", q1, "P at", q2, ": residue-level reader says", c1, ", table-level reader says", c2); sys.exit(1)
    sys.exit(0)
print("d", w["d"], "v1", c1, "v2", c2, "definition", w["d"] < 2.4)
sys.exit(1 if (bool(c1) != (w["d"] < 2.4) or bool(c2) != (w["d"] < 2.4)) else 0)
'''


# ------------------------------------------------------------------------------------------ residue grouping (concretising mode)
CH, NUM, IC = ["A", "B"], [10, 11], ["", "A"]
ANAMES = ["P", "C1'", "N9", "C4"]


def emit_pdb(table):
    out = []
    for k, (c, n, i) in enumerate(table):
        nm = ANAMES[k]
        out.append("ATOM  %5d %-4s %3s %s%4d%1s   %8.3f%8.3f%8.3f%6.2f%6.2f          %2s  " %
                   (k + 1, (" " + nm) if len(nm) < 4 else nm, "G", CH[c], NUM[n], IC[i], 1.0 + 3 * k, 2.0, 3.0, 1.0, 0.0, nm[0]))
    return "\n".join(out) + "\nEND\n"


def emit_cif(table):
    attrs = ["group_PDB", "id", "type_symbol", "label_atom_id", "label_alt_id", "label_comp_id", "label_asym_id", "label_entity_id", "label_seq_id",
             "pdbx_PDB_ins_code", "Cartn_x", "Cartn_y", "Cartn_z", "occupancy", "B_iso_or_equiv", "pdbx_formal_charge", "auth_seq_id", "auth_comp_id",
             "auth_asym_id", "auth_atom_id", "pdbx_PDB_model_num"]
    out = ["data_verif", "loop_"] + ["_atom_site." + a for a in attrs]
    for k, (c, n, i) in enumerate(table):
        nm = ANAMES[k]
        q = '"%s"' % nm if "'" in nm else nm
        out.append(" ".join(["ATOM", str(k + 1), nm[0], q, ".", "G", CH[c], "1", str(NUM[n]), IC[i] or "?", "%.3f" % (1.0 + 3 * k), "2.000", "3.000",
                             "1.00", "0.00", "?", str(NUM[n]), "G", CH[c], q, "1"]))
    return "\n".join(out) + "\n#\n"


def body_groups(table):
    """both reader generations, both formats, on one small atom table: same residues with the same atoms (real pandas / mmcif, natively)"""
    import io
    import os
    import tempfile
    from harness.e1_common import log, known_keys
    from rnapolis.parser import read_3d_structure
    from rnapolis.parser_v2 import parse_pdb_atoms, parse_cif_atoms
    from rnapolis.tertiary_v2 import Structure
    table = [tuple(t) for t in table]
    views = {}
    problems = []
    try:
        pdb, cif = emit_pdb(table), emit_cif(table)
        f = io.StringIO(pdb)
        f.name = "x.pdb"
        views["v1/pdb"] = sorted((r.auth.chain, r.auth.number, r.icode or "", tuple(a.name for a in r.atoms)) for r in read_3d_structure(f).residues)
        d = tempfile.mkdtemp(prefix="verif_c15_")
        p = os.path.join(d, "x.cif")
        with open(p, "w") as fh:
            fh.write(cif)
        with open(p) as fh:
            views["v1/cif"] = sorted((r.auth.chain, r.auth.number, r.icode or "", tuple(a.name for a in r.atoms)) for r in read_3d_structure(fh).residues)
        os.remove(p)
        os.rmdir(d)
        for tag, df, col in (("v2/pdb", parse_pdb_atoms(pdb), "name"), ("v2/cif", parse_cif_atoms(cif), "auth_atom_id")):
            views[tag] = sorted((r.chain_id, r.residue_number, r.insertion_code or "", tuple(r.atoms[col].tolist())) for r in Structure(df).residues)
    except Exception as e:  # noqa: BLE001
        problems.append(f"exception {type(e).__name__}: {e}")
    want = []
    for k, (c, n, i) in enumerate(table):
        key = (CH[c], NUM[n], IC[i])
        if want and want[-1][:3] == key:
            want[-1] = key + (want[-1][3] + (ANAMES[k],),)
        else:
            want.append(key + ((ANAMES[k],),))
    want = sorted(want)
    for tag, v in views.items():
        if v != want:
            problems.append(f"{tag} reports residues {v}, the table has {want}")
    keys = ["readers:residue-grouping"] if problems else []
    ok = all(k in known_keys(PID) for k in keys)
    log({"p": [list(t) for t in table], "problems": problems[:3], "keys": keys, "kind": "groups"})
    return ok


def replay(rec):
    import harness.e1_common as ec
    saved = ec.known_keys
    ec.known_keys = lambda pid: set()
    try:
        return body_groups(rec["p"])
    finally:
        ec.known_keys = saved


def groups_inputs(natoms):
    """AllSAT: identity (chain, number, icode) per atom over 2x2x2 values, residues contiguous in the file"""
    import z3
    from vlib import allsat
    vs = []
    cons = []
    for k in range(natoms):
        c, n, i = z3.Int(f"c{k}"), z3.Int(f"n{k}"), z3.Int(f"i{k}")
        vs += [c, n, i]
        cons += [c >= 0, c <= 1, n >= 0, n <= 1, i >= 0, i <= 1]

    def same(a, b):
        return z3.And(*[vs[3 * a + t] == vs[3 * b + t] for t in range(3)])
    for a in range(natoms):
        for b in range(a + 2, natoms):
            for m in range(a + 1, b):
                cons.append(z3.Implies(same(a, b), same(a, m)))
    models, nq, dt = allsat.allsat(vs, cons)
    return [([tuple(m[3 * k:3 * k + 3]) for k in range(natoms)],) for m in models], nq, dt


def _dispatch(spec):
    kind, sp = spec
    return {"pdb": job_pdb, "cif": job_cif, "conn": job_conn}[kind](sp)


def run(rep, tier):
    from vlib.core import Violation
    from vlib.par import pmap, Crashed
    specs = [("pdb", (False, "plain")), ("pdb", (True, "wide")), ("cif", 0), ("conn", 0), ("conn", 2)]
    if tier != "quick":
        specs += [("pdb", (False, "round")), ("conn", 1)]
    results = pmap(_dispatch, specs)
    for (kind, sp), r in zip(specs, results):
        if isinstance(r, Crashed):
            rep.harness_error(f"job {sp} crashed: {r.why}")
            continue
        rep.add(states=r["paths"], transitions=max(r["queries"], 1), solver_s=r["solver_s"])
        rep.cov.setdefault("groups", []).append({k: r.get(k) for k in ("name", "paths", "queries", "unknown", "wall_s")})
        if r["reach"]:
            rep.add(reachability_witnesses=1)
        else:
            rep.harness_error(f"{r['name']}: no path reaches the comparison")
        for v in r["verdicts"]:
            rep.add(obligations=1)
            if v["v"] == "unsat":
                rep.add(discharged=1)
            elif v["v"] == "sat":
                rep.add(discharged=1)
                if v["w"] is None:
                    rep.harness_error(f"{r['name']}: {v['ob']} (no witness)")
                else:
                    tmpl = {"pdb": REPLAY_PDB, "cif": REPLAY_CIF, "conn": REPLAY_CONN}[kind]
                    rep.violation(Violation(v["key"], f"{r['name']}: {v['ob']}", tmpl.format(w=v["w"]), witness=v["w"]))
            else:
                rep.add(undecided=1)
        rep.sample({"group": r["name"], "paths": r["paths"], "verdicts": [(v["ob"][:80], v["v"]) for v in r["verdicts"][:2]]}, cap=8)
    # residue grouping through the real pandas groupby / mmcif tokenizer: concretising mode (z3 AllSAT over small atom tables, native runs)
    from vlib import allsat, e1
    nat = 3 if tier == "quick" else 4
    inputs, nq, dt = groups_inputs(nat)
    rep.add(transitions=nq, solver_s=dt)
    pt = allsat.run_family(f"groups_{nat}atoms", "harness.c15", "body_groups", inputs,
                           [f"{nat} atoms; chain in {CH}, number in {NUM}, insertion code in {IC}; residues contiguous", "PDB and mmCIF text by an independent emitter",
                            "parser.read_3d_structure vs parser_v2 + tertiary_v2.Structure.residues"], expected=None, chunksize=8)
    e1.collect(rep, [pt], "harness.c15")
    rep.add(functions_encoded=["tertiary_v2.Structure.residues (real pandas groupby, concretising mode)", "parser.read_3d_structure (natively, same tables)"])
    rep.add(functions_encoded=["parser.parse_pdb", "parser.parse_cif", "parser.filter_clashing_atoms", "parser_v2.parse_pdb_atoms", "parser_v2.parse_cif_atoms",
                               "tertiary.Residue3D.is_connected", "tertiary_v2.Residue.is_connected"],
            bounds={"PDB": "one ATOM/HETATM line inside one MODEL; symbolic name / altLoc / residue name / chain / number / insertion code / element / model",
                    "mmCIF": "one atom_site row; insertion-code cell over {?, ., A, B}", "connectivity": "O3'-P distance 0..6 A along two axes, any translation",
                    "grouping": "every table of 3 (quick) / 4 atoms with chain, number, insertion code over 2x2x2 values, residues contiguous (z3 AllSAT, real pandas)",
                    "outside": "torsion magnitudes (covered by C18), blank chain ids, tables with alternate locations"},
            engines=["E2 symx bounded strings / reals + z3"],
            rule="states = explored paths; transitions = solver queries; one agreement obligation per path",
            stubs=["pandas -> record-level stand-in", "IoAdapterPy -> one-row atom_site table", "tertiary_v2.Residue.find_atom -> returns the symbolic atom"])
    rep.assume("partial: line / row level, connectivity kernels and residue grouping on small tables", "chain identifiers are non-blank")
