"""symx (E2): execution of the real code on z3-backed proxy values with a re-execution DFS explorer.

The function under test is run by the ordinary interpreter; its inputs are proxies (SReal, SInt,
SBool, BStr in bstr.py).  Whenever Python needs a concrete truth value (`if`, `and`, `min`, ...)
`SBool.__bool__` asks the engine, which checks both sides for feasibility under the current path
condition and schedules the other side for a later re-execution.  At the end of each path the harness
turns the property into obligations `axioms ∧ path ∧ ¬post` that must be unsat.
"""
import fractions
import math as _math
import os
import subprocess
import tempfile
import time

import threading

import z3
import os as _os
import sys as _sys
_sys.path.insert(0, _os.path.dirname(_os.path.dirname(_os.path.abspath(__file__))))
from vlib import frame as _frame
FRAME_CHECK = _os.environ.get('SYMX_FRAME_CHECK', '1') == '1'
FRAME_STATS = {"paths": 0, "diffs": []}   # per process; collected by vlib.par after each job


class Watchdog:
    """z3's own timeout is not always honoured inside nlsat: interrupt the context from a timer thread as a backstop"""

    def __init__(self, seconds):
        self.t = threading.Timer(seconds, self._fire)
        self.fired = False

    def _fire(self):
        self.fired = True
        try:
            z3.main_ctx().interrupt()
        except Exception:  # noqa: BLE001
            pass

    def __enter__(self):
        self.t.daemon = True
        self.t.start()
        return self

    def __exit__(self, *a):
        self.t.cancel()
        return False


class PathAbort(Exception):
    """raised inside the code under test to abandon a path (e.g. assumption violated)"""


class Engine:
    def __init__(self, timeout_ms=20000, obligation_timeout_ms=60000):
        self.solver = z3.Solver()
        self.solver.set("timeout", timeout_ms)
        self.timeout_ms = timeout_ms
        self.obligation_timeout_ms = obligation_timeout_ms
        self.axioms = []
        self._nax = 0
        self.path = []
        self.prefix = []
        self.todo = []
        self.nq = 0
        self.tq = 0.0
        self.unknown = 0
        self.fresh = 0
        self.sqrtmemo = {}
        self.npaths = 0

    # ------------------------------------------------------------------ variables
    def real(self, name):
        return SReal(self, z3.Real(name))

    def int(self, name, lo=None, hi=None):
        v = z3.Int(name)
        if lo is not None:
            self.axioms.append(v >= lo)
        if hi is not None:
            self.axioms.append(v <= hi)
        return SInt(self, v)

    def bool(self, name):
        return SBool(self, z3.Bool(name))

    def const(self, x):
        return SReal(self, _zr(x))

    def freshreal(self, stem):
        self.fresh += 1
        return z3.Real(f"_{stem}{self.fresh}")

    def assume(self, *exprs):
        for e in exprs:
            self.axioms.append(e.e if isinstance(e, SBool) else e)

    # ------------------------------------------------------------------ solving
    def _sync_axioms(self):
        for a in self.axioms[self._nax:]:
            self.solver.add(a)
        self._nax = len(self.axioms)

    def check(self, *extra, path=None, model=False):
        """sat/unsat/unknown of axioms ∧ path ∧ extra on the live solver"""
        self.nq += 1
        t = time.time()
        self._sync_axioms()
        self.solver.push()
        for e, b in (self.path if path is None else path):
            self.solver.add(e if b else z3.Not(e))
        for e in extra:
            self.solver.add(e)
        with Watchdog(self.timeout_ms / 1000.0 + 5):
            try:
                r = self.solver.check()
            except z3.Z3Exception:
                r = z3.unknown
        m = self.solver.model() if (model and r == z3.sat) else None
        self.solver.pop()
        self.tq += time.time() - t
        if r == z3.unknown:
            self.unknown += 1
        return str(r), m

    def branch(self, expr):
        expr = z3.simplify(expr)
        if z3.is_true(expr):
            return True
        if z3.is_false(expr):
            return False
        k = len(self.path)
        if k < len(self.prefix):
            b = self.prefix[k][1]
            self.path.append((self.prefix[k][0], b))
            return b
        rt, _ = self.check(expr)
        if rt == "unsat":
            self.path.append((expr, False))
            return False
        rf, _ = self.check(z3.Not(expr))
        if rf == "unsat":
            self.path.append((expr, True))
            return True
        self.todo.append(self.path + [(expr, False)])
        self.path.append((expr, True))
        return True

    def explore(self, fn, maxpaths=100000, on_path=None):
        """run fn() over all feasible paths; returns [(path, output)]; exceptions of the code under
        test are returned as outputs (instances of Exception)"""
        self.todo = [[]]
        results = []
        while self.todo and len(results) < maxpaths:
            self.prefix = self.todo.pop()
            self.path = []
            before = _frame.snapshot() if FRAME_CHECK else None
            try:
                out = fn()
            except PathAbort:
                continue
            except Exception as e:  # noqa: BLE001  the code under test raised on this path
                out = e
            if FRAME_CHECK:
                # frame condition (history independence): the call left the package's module-level mutable state unchanged
                self.frame_paths = getattr(self, "frame_paths", 0) + 1
                FRAME_STATS["paths"] += 1
                d = _frame.diff(before, _frame.snapshot())
                if d and len(FRAME_STATS["diffs"]) < 5:
                    FRAME_STATS["diffs"].append([list(x) for x in d[:3]])
                if d:
                    self.frame_diffs = getattr(self, "frame_diffs", [])
                    if len(self.frame_diffs) < 5:
                        self.frame_diffs.append([list(x) for x in d[:3]])
            results.append((list(self.path), out))
            self.npaths += 1
            if on_path:
                on_path(list(self.path), out)
        self.exhausted = not self.todo
        return results

    # ------------------------------------------------------------------ obligations
    def prove(self, path, negated_post, portfolio=True, want_model=True, race=False):
        """decide axioms ∧ path ∧ negated_post.  returns ('unsat'|'sat'|'unknown', model|None, seconds).
        In-process z3 first; when it answers unknown (or race=True, from the start) the query is written as
        SMT-LIB2 and run on /usr/bin/z3 4.8.12 and z3-new as well; the first conclusive answer wins, two
        conclusive answers that differ or an '(error' line make the obligation 'unknown'."""
        t = time.time()
        self.nq += 1
        s = z3.Solver()
        s.set("timeout", self.timeout_ms)
        for a in self.axioms:
            s.add(a)
        for e, b in path:
            s.add(e if b else z3.Not(e))
        for e in (negated_post if isinstance(negated_post, (list, tuple)) else [negated_post]):
            s.add(e)
        ext = None
        if race and portfolio:
            ext = ExternalRace(s.to_smt2(), self.obligation_timeout_ms // 1000)
        with Watchdog(self.timeout_ms / 1000.0 + 5):
            try:
                r = s.check()
            except z3.Z3Exception:
                r = z3.unknown
        if r != z3.unknown:
            if ext:
                ext.kill()
            self.tq += time.time() - t
            return str(r), (s.model() if r == z3.sat and want_model else None), time.time() - t
        if not portfolio:
            self.unknown += 1
            self.tq += time.time() - t
            return "unknown", None, time.time() - t
        if ext is None:
            ext = ExternalRace(s.to_smt2(), self.obligation_timeout_ms // 1000)
        r2 = ext.wait()
        self.tq += time.time() - t
        if r2 == "unknown":
            self.unknown += 1
        if r2 == "sat" and want_model:
            # obtain a model in process under a longer budget (only needed to report a counterexample)
            s.set("timeout", self.obligation_timeout_ms)
            if s.check() == z3.sat:
                return "sat", s.model(), time.time() - t
        return r2, None, time.time() - t


class ExternalRace:
    def __init__(self, smt2, timeout_s):
        self.timeout_s = timeout_s
        self.d = tempfile.mkdtemp(prefix="verif_smt_")
        self.f = os.path.join(self.d, "q.smt2")
        with open(self.f, "w") as fh:
            fh.write(smt2)
        self.procs = []
        self.t0 = time.time()
        for exe in ("/usr/bin/z3", "z3-new"):
            try:
                self.procs.append((exe, subprocess.Popen([exe, f"-T:{timeout_s}", self.f], stdout=subprocess.PIPE,
                                                         stderr=subprocess.STDOUT, text=True)))
            except OSError:
                pass

    def kill(self):
        for exe, p in self.procs:
            try:
                p.kill()
            except OSError:
                pass
        try:
            os.remove(self.f)
            os.rmdir(self.d)
        except OSError:
            pass

    def wait(self):
        answers = {}
        procs = list(self.procs)
        try:
            while procs and time.time() - self.t0 < self.timeout_s + 5:
                for exe, p in list(procs):
                    if p.poll() is not None:
                        out = p.stdout.read()
                        procs.remove((exe, p))
                        first = out.strip().split("\n")[0] if out.strip() else ""
                        if "(error" in out:
                            answers[exe] = "error"
                        elif first == "unsat":
                            answers[exe] = "unsat"
                        elif first == "sat":
                            answers[exe] = "sat"
                        else:
                            answers[exe] = "unknown"
                if {v for v in answers.values() if v in ("sat", "unsat")}:
                    break
                time.sleep(0.05)
        finally:
            self.kill()
        concl = {v for v in answers.values() if v in ("sat", "unsat")}
        if len(concl) == 1 and "error" not in answers.values():
            return concl.pop()
        return "unknown"


def external_check(smt2, timeout_s):
    return ExternalRace(smt2, timeout_s).wait()


def _external_check_old(smt2, timeout_s):
    """race the external solvers on an SMT-LIB2 dump; first conclusive answer wins"""
    d = tempfile.mkdtemp(prefix="verif_smt_")
    f = os.path.join(d, "q.smt2")
    with open(f, "w") as fh:
        fh.write(smt2)
    procs = []
    for exe in ("/usr/bin/z3", "z3-new"):
        try:
            procs.append((exe, subprocess.Popen([exe, f"-T:{timeout_s}", f], stdout=subprocess.PIPE, stderr=subprocess.STDOUT, text=True)))
        except OSError:
            pass
    answers = {}
    t0 = time.time()
    try:
        while procs and time.time() - t0 < timeout_s + 5:
            for exe, p in list(procs):
                if p.poll() is not None:
                    out = p.stdout.read()
                    procs.remove((exe, p))
                    if "(error" in out:
                        answers[exe] = "error"
                    elif out.strip().startswith("unsat"):
                        answers[exe] = "unsat"
                    elif out.strip().startswith("sat"):
                        answers[exe] = "sat"
                    else:
                        answers[exe] = "unknown"
            concl = {v for v in answers.values() if v in ("sat", "unsat")}
            if concl:
                break
            time.sleep(0.05)
    finally:
        for exe, p in procs:
            p.kill()
        try:
            os.remove(f)
            os.rmdir(d)
        except OSError:
            pass
    concl = {v for v in answers.values() if v in ("sat", "unsat")}
    if len(concl) == 1 and "error" not in answers.values():
        return concl.pop()
    return "unknown"


# ---------------------------------------------------------------------- proxies
def _zr(o):
    if isinstance(o, SReal):
        return o.e
    if isinstance(o, SInt):
        return z3.ToReal(o.e)
    if isinstance(o, bool):
        return z3.RealVal(int(o))
    if isinstance(o, int):
        return z3.RealVal(o)
    if isinstance(o, float):
        if o != o or o in (float("inf"), float("-inf")):
            raise ValueError("non-finite float in symbolic arithmetic")
        return z3.RealVal(fractions.Fraction(o))  # exact value of the double
    if isinstance(o, fractions.Fraction):
        return z3.RealVal(o)
    try:
        import numpy
        if isinstance(o, numpy.floating):
            return z3.RealVal(fractions.Fraction(float(o)))
        if isinstance(o, numpy.integer):
            return z3.RealVal(int(o))
    except ImportError:
        pass
    return NotImplemented


class SBool:
    def __init__(self, eng, e):
        self.eng = eng
        self.e = e

    def __bool__(self):
        return self.eng.branch(self.e)

    def __and__(self, o):
        return SBool(self.eng, z3.And(self.e, o.e if isinstance(o, SBool) else z3.BoolVal(bool(o))))

    def __or__(self, o):
        return SBool(self.eng, z3.Or(self.e, o.e if isinstance(o, SBool) else z3.BoolVal(bool(o))))

    def __invert__(self):
        return SBool(self.eng, z3.Not(self.e))

    __rand__ = __and__
    __ror__ = __or__

    def __repr__(self):
        return f"<SBool {self.e}>"


class SReal:

    def __init__(self, eng, e):
        self.eng = eng
        self.e = e

    def _w(self, e):
        return SReal(self.eng, e)

    def _bin(self, o, f):
        z = _zr(o)
        if z is NotImplemented:
            return NotImplemented
        return self._w(f(self.e, z))

    def __add__(self, o):
        return self._bin(o, lambda a, b: a + b)

    def __radd__(self, o):
        return self._bin(o, lambda a, b: b + a)

    def __sub__(self, o):
        return self._bin(o, lambda a, b: a - b)

    def __rsub__(self, o):
        return self._bin(o, lambda a, b: b - a)

    def __mul__(self, o):
        return self._bin(o, lambda a, b: a * b)

    def __rmul__(self, o):
        return self._bin(o, lambda a, b: b * a)

    def _div(self, num, den):
        # z3 gives x/0 an arbitrary value: fork on a zero denominator and raise like Python would
        if bool(SBool(self.eng, den == 0)):
            raise ZeroDivisionError("symbolic division by zero")
        return self._w(num / den)

    def __truediv__(self, o):
        z = _zr(o)
        if z is NotImplemented:
            return NotImplemented
        return self._div(self.e, z)

    def __rtruediv__(self, o):
        z = _zr(o)
        if z is NotImplemented:
            return NotImplemented
        return self._div(z, self.e)

    def __pow__(self, k):
        if isinstance(k, int) and k >= 0:
            r = z3.RealVal(1)
            for _ in range(k):
                r = r * self.e
            return self._w(r)
        if k == 0.5:
            return self.sqrt()
        return NotImplemented

    def __neg__(self):
        return self._w(-self.e)

    def __pos__(self):
        return self

    def __abs__(self):
        return self._w(z3.If(self.e >= 0, self.e, -self.e))

    def sqrt(self):
        key = z3.simplify(self.e)
        memo = self.eng.sqrtmemo
        k = key.sexpr()
        if k in memo:
            return self._w(memo[k])
        if z3.is_rational_value(key):
            f = fractions.Fraction(key.numerator_as_long(), key.denominator_as_long())
            if f >= 0:
                rn, rd = _math.isqrt(f.numerator), _math.isqrt(f.denominator)
                if rn * rn == f.numerator and rd * rd == f.denominator:
                    return self._w(z3.RealVal(fractions.Fraction(rn, rd)))
        if z3.is_mul(key) and key.num_args() == 2 and key.arg(0).eq(key.arg(1)):
            x = key.arg(0)                      # sqrt(x*x) = |x|: keeps collinear configurations in linear arithmetic
            return self._w(z3.If(x >= 0, x, -x))
        r = self.eng.freshreal("sqrt")
        self.eng.axioms.append(z3.And(r >= 0, r * r == key))
        memo[k] = r
        return self._w(r)

    def _cmp(self, o, f):
        z = _zr(o)
        if z is NotImplemented:
            return NotImplemented
        return SBool(self.eng, f(self.e, z))

    def __lt__(self, o):
        return self._cmp(o, lambda a, b: a < b)

    def __le__(self, o):
        return self._cmp(o, lambda a, b: a <= b)

    def __gt__(self, o):
        return self._cmp(o, lambda a, b: a > b)

    def __ge__(self, o):
        return self._cmp(o, lambda a, b: a >= b)

    def __eq__(self, o):
        r = self._cmp(o, lambda a, b: a == b)
        return False if r is NotImplemented else r

    def __ne__(self, o):
        r = self._cmp(o, lambda a, b: a != b)
        return True if r is NotImplemented else r

    def __hash__(self):
        return hash(("SReal", self.e.hash()))

    def __bool__(self):
        return bool(SBool(self.eng, self.e != 0))

    def __round__(self, ndigits=None):
        """round(x, n) as floor(x * 10^n + 1/2) / 10^n (differs from Python's banker's rounding only on exact ties)"""
        k = 10 ** (ndigits or 0)
        r = z3.ToReal(z3.ToInt(self.e * k + fractions.Fraction(1, 2))) / k
        return self._w(r) if ndigits is not None else SInt(self.eng, z3.ToInt(self.e + fractions.Fraction(1, 2)))

    def __float__(self):
        raise TypeError("float() of a symbolic real")

    def __format__(self, spec):
        return f"<{self.e}>"

    def item(self):
        return self

    def conjugate(self):
        return self

    def __repr__(self):
        return f"<{self.e}>"


class SInt:

    def __init__(self, eng, e):
        self.eng = eng
        self.e = e

    def _z(self, o):
        if isinstance(o, SInt):
            return o.e
        if isinstance(o, bool):
            return z3.IntVal(int(o))
        if isinstance(o, int):
            return z3.IntVal(o)
        return NotImplemented

    def _bin(self, o, f):
        z = self._z(o)
        if z is NotImplemented:
            if isinstance(o, (float, SReal)):
                return SReal(self.eng, z3.ToReal(self.e))._bin(o, f)
            return NotImplemented
        return SInt(self.eng, f(self.e, z))

    def __add__(self, o):
        return self._bin(o, lambda a, b: a + b)

    def __radd__(self, o):
        return self._bin(o, lambda a, b: b + a)

    def __sub__(self, o):
        return self._bin(o, lambda a, b: a - b)

    def __rsub__(self, o):
        return self._bin(o, lambda a, b: b - a)

    def __mul__(self, o):
        return self._bin(o, lambda a, b: a * b)

    def __rmul__(self, o):
        return self._bin(o, lambda a, b: b * a)

    def __neg__(self):
        return SInt(self.eng, -self.e)

    def _cmp(self, o, f):
        z = self._z(o)
        if z is NotImplemented:
            return NotImplemented
        return SBool(self.eng, f(self.e, z))

    def __lt__(self, o):
        return self._cmp(o, lambda a, b: a < b)

    def __le__(self, o):
        return self._cmp(o, lambda a, b: a <= b)

    def __gt__(self, o):
        return self._cmp(o, lambda a, b: a > b)

    def __ge__(self, o):
        return self._cmp(o, lambda a, b: a >= b)

    def __eq__(self, o):
        r = self._cmp(o, lambda a, b: a == b)
        return False if r is NotImplemented else r

    def __ne__(self, o):
        r = self._cmp(o, lambda a, b: a != b)
        return True if r is NotImplemented else r

    def concretize(self):
        """fork on the value (concretising mode): reuse the recorded decision when replaying a prefix"""
        eng = self.eng
        e = z3.simplify(self.e)
        if z3.is_int_value(e):
            return e.as_long()
        while True:
            k = len(eng.path)
            if k < len(eng.prefix):
                pe, pb = eng.prefix[k]
                eng.path.append((pe, pb))
                if pb and z3.is_eq(pe) and z3.is_int_value(pe.arg(1)) and pe.arg(0).eq(e):
                    return pe.arg(1).as_long()
                if pb:
                    # a recorded positive decision about something else: cannot happen at a concretisation point
                    raise RuntimeError("prefix mismatch in concretize")
                continue
            r, m = eng.check(model=True)
            if r != "sat":
                raise PathAbort()
            v = m.eval(e, model_completion=True).as_long()
            cond = (e == v)
            rf, _ = eng.check(z3.Not(cond))
            if rf != "unsat":
                eng.todo.append(eng.path + [(cond, False)])
            eng.path.append((cond, True))
            return v

    def __index__(self):
        return self.concretize()

    def __int__(self):
        return self.concretize()

    def __hash__(self):
        return hash(self.concretize())

    def __format__(self, spec):
        return format(self.concretize(), spec)

    def __repr__(self):
        return f"<SInt {self.e}>"


for _cls in (SBool, SReal, SInt):
    _cls.__deepcopy__ = lambda self, memo: self
    _cls.__copy__ = lambda self: self
