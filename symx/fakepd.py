"""Record-level stand-in for the few pandas entry points parser_v2 uses (DataFrame of dict records, iterrows, row.get,
column assignment, to_numeric, astype, isna, attrs).  pandas' dtype machinery is outside every claim; this stub keeps the
*contract* the code relies on: to_numeric turns numeric text into numbers and anything else into NaN, isna is true for
None / NaN, astype('category') leaves the values alone."""
from . import bstr as B
from .engine import SInt

NaN = float("nan")


def isna(x):
    if x is None:
        return True
    if isinstance(x, float) and x != x:
        return True
    return False


class FakeColumn(list):
    def astype(self, t):
        if t == "Int64":
            return FakeColumn([None if isna(v) else v for v in self])
        return FakeColumn(self)


class FakeRow:
    def __init__(self, rec):
        self.rec = rec

    def get(self, k, default=None):
        return self.rec.get(k, default)

    def __getitem__(self, k):
        return self.rec[k]


class FakeFrame:
    def __init__(self, records=None, columns=None, index=None):
        self.records = [dict(r) for r in (records or [])]
        self._columns = list(columns) if columns is not None else None
        self.index = list(index) if index is not None else list(range(len(self.records)))   # row labels (kept by selections)
        self.attrs = {}

    @property
    def empty(self):
        return len(self.records) == 0

    @property
    def columns(self):
        if self.records:
            cols = []
            for r in self.records:
                for k in r:
                    if k not in cols:
                        cols.append(k)
            return cols
        return self._columns or []

    def __len__(self):
        return len(self.records)

    def __getitem__(self, col):
        if isinstance(col, list):
            # column selection: a frame with the same row labels
            out = FakeFrame([{k: r.get(k) for k in col} for r in self.records], columns=col, index=self.index)
            out.attrs = dict(self.attrs)
            return out
        return FakeColumn([r.get(col) for r in self.records])

    def __setitem__(self, col, values):
        for r, v in zip(self.records, values):
            r[col] = v

    def iterrows(self):
        for i, r in zip(self.index, self.records):
            yield i, FakeRow(r)

    def take_rows(self, positions):
        """row selection as a boolean mask / .loc would do it: records at `positions`, labels kept"""
        out = FakeFrame([self.records[i] for i in positions], columns=self._columns, index=[self.index[i] for i in positions])
        out.attrs = dict(self.attrs)
        return out

    def to_numpy(self, dtype=None):
        import numpy as np
        cols = self.columns
        return np.array([[r.get(k) for k in cols] for r in self.records], dtype=dtype if dtype is not None else object).reshape(len(self.records), len(cols))


def to_numeric(col, errors="raise"):
    out = FakeColumn()
    for v in col:
        if v is None:
            out.append(NaN)
            continue
        if isinstance(v, (int, float, SInt)):
            out.append(v)
            continue
        c = B.const_value(v) if isinstance(v, (B.BStr, B.Rope, str)) else None
        if c is not None:
            try:
                out.append(int(c))
            except ValueError:
                try:
                    out.append(float(c))
                except ValueError:
                    if errors != "coerce":
                        raise
                    out.append(NaN)
            continue
        try:
            out.append(B.bstr_int(v if isinstance(v, B.BStr) else v.flatten()))
        except ValueError:
            if errors != "coerce":
                raise
            out.append(NaN)
    return out


class FakePd:
    DataFrame = FakeFrame
    to_numeric = staticmethod(to_numeric)
    isna = staticmethod(isna)


class FakeBuffer:
    """io.StringIO stand-in: collects the pieces written (each write is one full line in parser_v2)"""

    def __init__(self, *a):
        self.pieces = []

    def write(self, x):
        self.pieces.append(x)

    def getvalue(self):
        return Text(self.pieces)

    def close(self):
        pass


class Text:
    def __init__(self, pieces):
        self.pieces = list(pieces)

    def lines(self):
        return self.pieces

    def seek(self, n):
        pass

    def readlines(self):
        return [p.flatten() if isinstance(p, B.Rope) else p for p in self.pieces]


class FakeIo:
    StringIO = FakeBuffer
