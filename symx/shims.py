"""Shims for the `math` / `numpy` names of a module under test: transcendental functions are never
evaluated on proxies; they return Angle / Atan2 objects whose comparisons are translated exactly
through monotonicity, with cos/sin of constant thresholds given as rational enclosures."""
import fractions
import math as _math

import numpy as _numpy
import z3

from .engine import SReal, SBool, SInt

F = fractions.Fraction
EPS = F(1, 10 ** 11)


def ratcos(deg):
    """rational enclosure (lo, hi) of cos(deg degrees), 2e-11 wide; exact for multiples of 90"""
    d = F(deg).limit_denominator(10 ** 9) if not isinstance(deg, F) else deg
    if d % 90 == 0:
        v = [1, 0, -1, 0][int(d // 90) % 4]
        return F(v), F(v)
    c = _math.cos(_math.radians(float(deg)))
    f = F(c).limit_denominator(10 ** 12)
    return f - EPS, f + EPS


class Atan2:
    """atan2(y, x) with symbolic arguments; the harness inspects .y and .x"""

    def __init__(self, y, x):
        self.y, self.x = y, x

    def _eng(self):
        return self.y.eng if isinstance(self.y, SReal) else self.x.eng


class Angle:
    """acos(c) (radians, or degrees when deg=True); only order comparisons are supported"""

    def __init__(self, c, deg=False):
        self.c, self.deg = c, deg

    def _k(self, k):
        return F(k).limit_denominator(10 ** 9) if self.deg else F(_math.degrees(k)).limit_denominator(10 ** 9)

    def __gt__(self, o):          # acos(c) > k  <=>  c < cos k
        if isinstance(o, Angle):
            return SBool(self.c.eng, self.c.e < o.c.e)
        lo, hi = ratcos(self._k(o))
        return SBool(self.c.eng, self.c.e < z3.RealVal(lo))

    def __lt__(self, o):
        if isinstance(o, Angle):
            return SBool(self.c.eng, self.c.e > o.c.e)
        lo, hi = ratcos(self._k(o))
        return SBool(self.c.eng, self.c.e > z3.RealVal(hi))

    def __ge__(self, o):
        if isinstance(o, Angle):
            return SBool(self.c.eng, self.c.e <= o.c.e)
        lo, hi = ratcos(self._k(o))
        return SBool(self.c.eng, self.c.e <= z3.RealVal(hi))

    def __le__(self, o):
        if isinstance(o, Angle):
            return SBool(self.c.eng, self.c.e >= o.c.e)
        lo, hi = ratcos(self._k(o))
        return SBool(self.c.eng, self.c.e >= z3.RealVal(lo))


class MathShim:
    def __getattr__(self, n):
        return getattr(_math, n)

    def atan2(self, y, x):
        if isinstance(y, SReal) or isinstance(x, SReal):
            return Atan2(y, x)
        return _math.atan2(y, x)

    def acos(self, c):
        return Angle(c) if isinstance(c, SReal) else _math.acos(c)

    def degrees(self, a):
        if isinstance(a, Angle):
            return Angle(a.c, True)
        if isinstance(a, Atan2):
            a2 = Atan2(a.y, a.x)
            a2.deg = True
            return a2
        return _math.degrees(a)

    def isnan(self, v):
        return False if isinstance(v, (Atan2, Angle, SReal, SInt)) else _math.isnan(v)

    def sqrt(self, v):
        return v.sqrt() if isinstance(v, SReal) else _math.sqrt(v)

    def isclose(self, a, b, rel_tol=1e-09, abs_tol=0.0):
        if isinstance(a, SReal) or isinstance(b, SReal):
            eng = a.eng if isinstance(a, SReal) else b.eng
            a = a if isinstance(a, SReal) else eng.const(a)
            b = b if isinstance(b, SReal) else eng.const(b)
            d = abs(a - b)
            return (d <= abs(a) * rel_tol) | (d <= abs(b) * rel_tol) | (d <= abs_tol)
        return _math.isclose(a, b, rel_tol=rel_tol, abs_tol=abs_tol)


class NpShim:
    """numpy stand-in: everything is numpy, except the transcendental entry points"""

    def __getattr__(self, n):
        return getattr(_numpy, n)

    def arctan2(self, y, x):
        if isinstance(y, SReal) or isinstance(x, SReal):
            return Atan2(y, x)
        return _numpy.arctan2(y, x)

    def arccos(self, c):
        return Angle(c) if isinstance(c, SReal) else _numpy.arccos(c)

    def degrees(self, a):
        return MathShim().degrees(a) if isinstance(a, (Angle, Atan2)) else _numpy.degrees(a)

    def isnan(self, v):
        return False if isinstance(v, (Atan2, Angle, SReal, SInt)) else _numpy.isnan(v)

    def sqrt(self, v):
        return v.sqrt() if isinstance(v, SReal) else _numpy.sqrt(v)


def arr(*xs):
    return _numpy.array(list(xs), dtype=object)


def _dir(theta_rad):
    """(cos, sin) of a constant angle as exact rationals of the doubles (error ~1e-16, far inside the 1e-6 margins)"""
    return F(_math.cos(theta_rad)), F(_math.sin(theta_rad))


def _atan2_gt(a, k):
    """SBool: atan2(y, x) > k for a constant k in (-pi, pi)"""
    eng = a._eng()
    y = a.y.e if isinstance(a.y, SReal) else z3.RealVal(F(a.y))
    x = a.x.e if isinstance(a.x, SReal) else z3.RealVal(F(a.x))
    if getattr(a, "deg", False):
        k = _math.radians(k)
    c, s = _dir(k)
    cross = z3.RealVal(c) * y - z3.RealVal(s) * x
    zero = z3.And(x == 0, y == 0)
    if k >= 0:
        body = z3.Or(z3.And(y > 0, cross > 0), z3.And(y == 0, x < 0))
        return SBool(eng, z3.If(zero, z3.BoolVal(0 > k), body))
    body = z3.Or(y >= 0, z3.And(y < 0, cross > 0))
    return SBool(eng, z3.If(zero, z3.BoolVal(0 > k), body))


def _atan2_lt(a, k):
    eng = a._eng()
    y = a.y.e if isinstance(a.y, SReal) else z3.RealVal(F(a.y))
    x = a.x.e if isinstance(a.x, SReal) else z3.RealVal(F(a.x))
    if getattr(a, "deg", False):
        k = _math.radians(k)
    c, s = _dir(k)
    cross = z3.RealVal(c) * y - z3.RealVal(s) * x
    zero = z3.And(x == 0, y == 0)
    if k > 0:
        body = z3.Or(y < 0, cross < 0)
    else:
        body = z3.And(y < 0, cross < 0)
    return SBool(eng, z3.If(zero, z3.BoolVal(0 < k), body))


Atan2.__gt__ = lambda self, k: _atan2_gt(self, k)
Atan2.__lt__ = lambda self, k: _atan2_lt(self, k)
Atan2.__ge__ = lambda self, k: ~_atan2_lt(self, k)
Atan2.__le__ = lambda self, k: ~_atan2_gt(self, k)


def _atan2_abs(self):
    """abs(atan2(y, x)) = atan2(|y|, x)"""
    return Atan2(abs(self.y), self.x)


Atan2.__abs__ = _atan2_abs


Angle.__format__ = lambda self, spec: "<angle>"
Atan2.__format__ = lambda self, spec: "<atan2>"
