"""Independent emitter of PDB ATOM/HETATM/MODEL lines from symbolic fields (fixed 80-column layout),
used as *input generator* for the readers (C08, C15) and as the reference layout for the writer (C09)."""
import z3

from . import bstr as B
from .bstr import BStr

NAMECH = "ABCDEFGHIJKLMNOPQRSTUVWXYZ0123456789'*"
LETTERS = "ABCDEFGHIJKLMNOPQRSTUVWXYZ"
ALNUM = LETTERS + "abcdefghijklmnopqrstuvwxyz0123456789"


def const(eng, t):
    return BStr.const(eng, t)


def cat(eng, parts):
    out = BStr.const(eng, "")
    for p in parts:
        out = out + (p if isinstance(p, BStr) else BStr.const(eng, p))
    return out


def trim(b, cap):
    """same string, capacity cut to `cap` (the caller has asserted len <= cap)"""
    t = BStr(b.eng, b.chars[:cap], b.ln)
    t.excl, t.label = b.excl, b.label
    return t


def sym_fields(eng, tag, name_cap=4, resname_cap=3, serial_digits=5, resseq_digits=4, neg_resseq=True):
    f = {}
    f["name"] = B.bvar(eng, tag + "name", name_cap, minlen=1, charset=NAMECH)
    f["altloc"] = B.bvar(eng, tag + "alt", 1, charset=LETTERS)            # length 0 = blank
    f["resname"] = B.bvar(eng, tag + "res", resname_cap, minlen=1, charset=LETTERS + "0123456789")
    f["chain"] = B.bvar(eng, tag + "chain", 1, minlen=1, charset=ALNUM)
    n, b = B.int_field(eng, tag + "seq", resseq_digits, neg_resseq)
    eng.axioms.append(b.lnz() <= resseq_digits)          # '-999' .. '9999' fit the 4 columns
    f["resseq_n"], f["resseq"] = n, trim(b, resseq_digits)
    f["icode"] = B.bvar(eng, tag + "ic", 1, charset=LETTERS)              # length 0 = blank
    f["serial_n"], f["serial"] = B.int_field(eng, tag + "ser", serial_digits, False)
    f["element"] = B.bvar(eng, tag + "el", 2, charset=LETTERS)
    return f


def atom_line(eng, f, x, y, z, occ="  1.00", b="  0.00", record="ATOM  ", name_lead_space=False, charge="  "):
    """80-column line; x/y/z 8-char strings, occ/b 6-char strings (concrete)"""
    name = f["name"]
    name_field = (const(eng, " ") + name.ljust(3)) if name_lead_space else name.ljust(4)
    parts = [record, f["serial"].rjust(5), " ", name_field, f["altloc"].ljust(1), f["resname"].rjust(3), " ", f["chain"],
             f["resseq"].rjust(4), f["icode"].ljust(1), "   ", x, y, z, occ, b, " " * 10, f["element"].rjust(2), charge]
    line = cat(eng, parts)
    assert isinstance(line.ln, int) and line.ln == 80, line.ln
    return line


def model_line(eng, n_field):
    line = cat(eng, ["MODEL ", "    ", n_field.rjust(4)])
    return line


def fmt83(v):
    return "%8.3f" % v


def fmt62(v):
    return "%6.2f" % v
