"""symx bounded strings: BStr = char array (list of z3 Int codes) + length (Python int when known, else z3 Int);
Rope = concatenation of str / BStr segments for line-level code (split on a concrete separator, strip, +, f-strings);
AST instrumenter that rewrites only what Python's data model cannot overload (f-strings, len/str/int(...), `in`,
Enum[...] / dict[...] with a symbolic key)."""
import ast
import builtins
import inspect
import textwrap
import types

import z3

from .engine import Engine, SBool, SInt

SymBool = SBool


def _iv(x): return z3.IntVal(x)
class BStr:
    """chars: list of z3 Int exprs (capacity), ln: z3 Int expr or python int; invariant 0<=ln<=cap"""
    def __init__(s, eng, chars, ln):
        s.eng=eng; s.chars=list(chars); s.ln=ln
    @staticmethod
    def const(eng, t): return BStr(eng, [_iv(ord(c)) for c in t], len(t))
    @staticmethod
    def var(eng, name, cap, minlen=0, charset=None):
        chars=[z3.Int(f"{name}_c{k}") for k in range(cap)]; ln=z3.Int(f"{name}_len")
        eng.axioms.append(z3.And(ln>=minlen, ln<=cap))
        for c in chars:
            eng.axioms.append(z3.Or([c==ord(a) for a in charset]) if charset else z3.And(c>=32, c<=126))
        return BStr(eng, chars, ln)
    @property
    def cap(s): return len(s.chars)
    def lnz(s): return _iv(s.ln) if isinstance(s.ln,int) else s.ln
    def _co(s,o): return o if isinstance(o,BStr) else BStr.const(s.eng,o)
    def at(s,k):  # z3 char at concrete k (garbage beyond ln)
        return s.chars[k] if k<s.cap else _iv(-1)
    def __len__(s): raise TypeError("use _sx.len")
    def length(s): return s.ln if isinstance(s.ln,int) else SInt(s.eng, s.ln)
    def __eq__(s,o):
        if not isinstance(o,(BStr,str)): return False
        o=s._co(o); n=max(s.cap,o.cap)
        conj=[s.lnz()==o.lnz()]
        for k in range(min(s.cap,o.cap)):
            conj.append(z3.Implies(s.lnz()>k, s.chars[k]==o.chars[k]))
        if s.cap!=o.cap: conj.append(s.lnz()<=min(s.cap,o.cap))
        return SymBool(s.eng, z3.And(conj))
    def __ne__(s,o):
        r=s.__eq__(o)
        return (not r) if isinstance(r,bool) else SymBool(s.eng, z3.Not(r.e))
    __hash__=None
    def __bool__(s): return bool(SymBool(s.eng, s.lnz()>0))
    def startswith(s,p):
        assert isinstance(p,str)
        return SymBool(s.eng, z3.And([s.lnz()>=len(p)]+[s.at(k)==ord(c) for k,c in enumerate(p)]))
    def endswith(s,p):
        assert isinstance(p,str); m=len(p)
        # fork-free: OR over possible lengths
        alts=[]
        for L in range(m, s.cap+1):
            alts.append(z3.And([s.lnz()==L]+[s.chars[L-m+k]==ord(c) for k,c in enumerate(p)]))
        return SymBool(s.eng, z3.Or(alts) if alts else z3.BoolVal(False))
    def _slice(s, a, b):
        # concrete python-style bounds a,b (may be None / negative)
        if (a is not None and a<0) or (b is not None and b<0):
            # negative index: case split on length (concretize length by forking)
            L=s.eng_concretize_len()
            t=list(range(L))[slice(a,b)]
            return BStr(s.eng,[s.chars[k] for k in t], len(t))
        a=0 if a is None else a; b=s.cap if b is None else min(b,s.cap)
        if a>=b: return BStr(s.eng,[],0)
        chars=s.chars[a:b]
        if isinstance(s.ln,int): return BStr(s.eng, chars[:max(0,min(s.ln,b)-a)], max(0,min(s.ln,b)-a))
        ln=z3.If(s.ln<=a, 0, z3.If(s.ln>=b, b-a, s.ln-a))
        return BStr(s.eng, chars, z3.simplify(ln))
    def eng_concretize_len(s):
        if isinstance(s.ln,int): return s.ln
        for L in range(s.cap+1):
            if SymBool(s.eng, s.ln==L): 
                return L
        raise RuntimeError("no length")
    def __getitem__(s, i):
        if isinstance(i, slice): return s._slice(i.start, i.stop)
        if i<0:
            L=s.eng_concretize_len(); i=L+i
        if not SymBool(s.eng, s.lnz()>i): raise IndexError("string index out of range")
        return BStr(s.eng,[s.chars[i]],1)
    def __add__(s,o):
        o=s._co(o)
        if isinstance(s.ln,int): return BStr(s.eng, s.chars[:s.ln]+o.chars, s.ln+o.ln if isinstance(o.ln,int) else z3.simplify(s.ln+o.ln))
        L=s.eng_concretize_len()
        return BStr(s.eng, s.chars[:L]+o.chars, L+o.ln if isinstance(o.ln,int) else z3.simplify(L+o.ln))
    def __radd__(s,o): return BStr.const(s.eng,o)+s
    def _cls(s, pred):
        # all chars satisfy pred and len>0 (python semantics for isX)
        return SymBool(s.eng, z3.And([s.lnz()>0]+[z3.Implies(s.lnz()>k, pred(s.chars[k])) for k in range(s.cap)]))
    def isdigit(s): return s._cls(lambda c: z3.And(c>=48,c<=57))
    def isalpha(s): return s._cls(lambda c: z3.Or(z3.And(c>=65,c<=90), z3.And(c>=97,c<=122)))
    def lower(s): return BStr(s.eng,[z3.If(z3.And(c>=65,c<=90), c+32, c) for c in s.chars], s.ln)
    def upper(s): return BStr(s.eng,[z3.If(z3.And(c>=97,c<=122), c-32, c) for c in s.chars], s.ln)
    def __repr__(s): return f"<BStr cap={s.cap} ln={s.ln}>"
    def concretize(s, model):
        L=model.eval(s.lnz(),model_completion=True).as_long()
        return "".join(chr(model.eval(c,model_completion=True).as_long()) for c in s.chars[:L])

class SX:
    """helpers the instrumented code calls"""
    def __init__(s, eng): s.eng=eng
    def len(s,x): return x.length() if isinstance(x,BStr) else builtins.len(x)
    def fstr(s,parts):
        if not any(isinstance(p,BStr) for p in parts): return "".join(parts)
        out=BStr.const(s.eng,"")
        for p in parts: out=out+p
        return out
    def fmt(s,v,conv,spec):
        if isinstance(v,BStr):
            assert not spec; return v
        if conv=='r': v=repr(v)
        elif conv=='s': v=str(v)
        return format(v, spec or "")
    def contains(s, item, container):
        if isinstance(item,BStr) and isinstance(container,(tuple,list)):
            for c in container:
                if item==c: return True
            return False
        return item in container
    def getitem(s, obj, key):
        import enum
        if isinstance(key,BStr):
            if isinstance(obj, enum.EnumMeta):
                for name,member in obj.__members__.items():
                    if key==name: return member
                raise KeyError("<symbolic>")
            if isinstance(obj, dict):
                for k,v in obj.items():
                    if key==k: return v
                raise KeyError("<symbolic>")
        return obj[key]

class Rewriter(ast.NodeTransformer):
    def visit_JoinedStr(self,node):
        self.generic_visit(node)
        parts=[]
        for v in node.values:
            if isinstance(v,ast.Constant): parts.append(v)
            else:
                conv={-1:None,115:'s',114:'r',97:'a'}[v.conversion]
                spec=v.format_spec if v.format_spec is not None else ast.Constant(None)
                parts.append(ast.Call(ast.Attribute(ast.Name('_sx',ast.Load()),'fmt',ast.Load()),[v.value,ast.Constant(conv),spec],[]))
        return ast.Call(ast.Attribute(ast.Name('_sx',ast.Load()),'fstr',ast.Load()),[ast.List(parts,ast.Load())],[])
    def visit_Call(self,node):
        self.generic_visit(node)
        if isinstance(node.func,ast.Name) and node.func.id in ('len',):
            node.func=ast.Attribute(ast.Name('_sx',ast.Load()),node.func.id,ast.Load())
        return node
    def visit_Compare(self,node):
        self.generic_visit(node)
        if len(node.ops)==1 and isinstance(node.ops[0],(ast.In,ast.NotIn)):
            c=ast.Call(ast.Attribute(ast.Name('_sx',ast.Load()),'contains',ast.Load()),[node.left,node.comparators[0]],[])
            return c if isinstance(node.ops[0],ast.In) else ast.UnaryOp(ast.Not(),c)
        return node
    def visit_Subscript(self,node):
        self.generic_visit(node)
        if isinstance(node.ctx,ast.Load) and not isinstance(node.slice,ast.Slice):
            return ast.Call(ast.Attribute(ast.Name('_sx',ast.Load()),'getitem',ast.Load()),[node.value,node.slice],[])
        return node

def instrument(fn, eng):
    src=textwrap.dedent(inspect.getsource(fn))
    tree=Rewriter().visit(ast.parse(src)); ast.fix_missing_locations(tree)
    ns=dict(fn.__globals__); ns['_sx']=SX(eng)
    exec(compile(tree, inspect.getsourcefile(fn), 'exec'), ns)
    return ns[fn.__name__]

# ---- extensions: ljust/rjust/strip/str(int) ----
def _ljust(s, n, fill=" "):
    f=_iv(ord(fill))
    if s.cap>=n and not isinstance(s.ln,int):
        cap=s.cap
    else: cap=max(s.cap,n)
    ln=s.lnz()
    chars=[z3.If(ln>k, s.at(k), f) if k<s.cap else f for k in range(cap)]
    newln = max(s.ln,n) if isinstance(s.ln,int) else z3.simplify(z3.If(ln>=n, ln, n))
    if isinstance(s.ln,int): chars=chars[:newln]
    elif s.cap<=n: newln=n; chars=chars[:n]
    return BStr(s.eng,[z3.simplify(c) for c in chars],newln)
def _rjust(s, n, fill=" "):
    f=_iv(ord(fill))
    if isinstance(s.ln,int):
        pad=max(0,n-s.ln); return BStr(s.eng,[f]*pad+s.chars[:s.ln], pad+s.ln)
    ln=s.ln; cap=max(s.cap,n)
    chars=[]
    for k in range(cap):
        # result[k] = fill if k < pad else s[k-pad], pad = max(0,n-ln)
        e=s.at(k) if k<s.cap else f   # case pad==0 (ln>=n)
        for L in range(min(n,s.cap+1)):   # ln==L<n: pad=n-L
            pad=n-L
            e=z3.If(ln==L, f if k<pad else (s.chars[k-pad] if k-pad<s.cap else f), e)
        chars.append(z3.simplify(e))
    newln = n if s.cap<=n else z3.simplify(z3.If(ln>=n, ln, n))
    if s.cap<=n: chars=chars[:n]
    return BStr(s.eng,chars,newln)
def _isws(c): return z3.Or(c==32, z3.And(c>=9,c<=13), z3.And(c>=28,c<=31))
def _strip(s):
    # fork-free: lead = number of leading ws chars within ln; trail similarly
    ln=s.lnz(); cap=s.cap
    # lead
    lead=_iv(0); allws=z3.BoolVal(True)
    for k in range(cap):
        allws=z3.And(allws, ln>k, _isws(s.chars[k]))
        lead=z3.If(allws, k+1, lead)
    lead=z3.simplify(lead)
    # trail: count trailing ws given ln (cascade over ln)
    trail=_iv(0)
    for L in range(1,cap+1):
        t=_iv(0); allw=z3.BoolVal(True)
        for k in range(L-1,-1,-1):
            allw=z3.And(allw,_isws(s.chars[k])); t=z3.If(allw, L-k, t)
        trail=z3.If(ln==L, t, trail)
    trail=z3.simplify(trail)
    newln=z3.simplify(z3.If(lead>=ln, 0, ln-lead-trail))
    chars=[]
    for k in range(cap):
        e=_iv(32)
        for d in range(cap-k):
            e=z3.If(lead==d, s.chars[k+d], e)
        chars.append(z3.simplify(e))
    return BStr(s.eng,chars,newln)
BStr.ljust=lambda s,n,fill=" ": _ljust(s,n,fill)
BStr.rjust=lambda s,n,fill=" ": _rjust(s,n,fill)
BStr.strip=lambda s: _strip(s)
def _sint_str(eng, e, maxdigits):
    # decimal rendering of 0<=e<10^maxdigits as BStr
    digs=[ (e/(10**(maxdigits-1-k)))%10 for k in range(maxdigits)]
    nd=_iv(1)
    for k in range(maxdigits-1,0,-1): nd=z3.If(e>=10**k, z3.If(nd<k+1,k+1,nd), nd)
    nd=z3.simplify(nd)
    chars=[]
    for k in range(maxdigits):
        c=_iv(48)
        for D in range(1,maxdigits+1):
            if k<D: c=z3.If(nd==D, 48+digs[maxdigits-D+k], c)
        chars.append(c)
    return BStr(eng,chars,nd)
_old_fmt=SX.fmt
def _sx_str(s,x,maxdigits=5):
    if isinstance(x,SInt): return _sint_str(s.eng,x.e,maxdigits)
    return str(x)
SX.str=_sx_str
_oldcall=Rewriter.visit_Call
def _vc(self,node):
    self.generic_visit(node)
    if isinstance(node.func,ast.Name) and node.func.id in ('len','str'):
        node.func=ast.Attribute(ast.Name('_sx',ast.Load()),node.func.id,ast.Load())
    return node
Rewriter.visit_Call=_vc
_oldgi=SX.getitem
def _gi(s,obj,key):
    if isinstance(obj,BStr): return obj[key]
    return _oldgi(s,obj,key)
SX.getitem=_gi


# =====================================================================================================
# additions for the framework: hashing, exclusions, integer parsing, ropes
# =====================================================================================================
BStr.__hash__ = lambda s: 0x5B57          # constant: native dict/set fall back to __eq__, which forks
BStr.excl = frozenset()                   # characters the atom is known (by its axioms) not to contain
BStr.label = None


def bvar(eng, name, cap, minlen=0, charset=None, excl="", printable=True):
    """fresh symbolic string: length in [minlen, cap]; chars from `charset` (if given) or printable ASCII minus `excl`"""
    s = BStr.var(eng, name, cap, minlen=minlen, charset=charset)
    if minlen == cap:
        s.ln = cap                      # fixed length: keep it a Python int so that column arithmetic stays concrete
    if charset is None and excl:
        for c in s.chars:
            for x in excl:
                eng.axioms.append(c != ord(x))
    if charset is not None:
        s.excl = frozenset(chr(k) for k in range(256)) - frozenset(charset)
    else:
        s.excl = frozenset(excl) | frozenset(chr(k) for k in list(range(0, 32)) + list(range(127, 256)))
    s.label = name
    return s


def _bstr_split(s, sep=None, maxsplit=-1):
    if sep is not None and len(sep) == 1 and sep in s.excl:
        return [s]
    raise NotImplementedError(f"split({sep!r}) on a symbolic string that may contain the separator")


BStr.split = _bstr_split


def _is_digit(c):
    return z3.And(c >= 48, c <= 57)


def bstr_int(s):
    """int(s) for a symbolic string over a charset without whitespace, '+', '_': an optional '-' followed by 1+ ASCII digits,
    anything else raises ValueError (like Python)"""
    eng = s.eng
    ln = s.lnz()
    cap = s.cap
    if cap == 0:
        raise ValueError("invalid literal for int() with base 10: ''")
    neg = z3.And(ln >= 1, s.chars[0] == 45)
    start = z3.If(neg, 1, 0)
    ok = z3.And(ln - start >= 1, *[z3.Implies(z3.And(ln > k, k >= start), _is_digit(s.chars[k])) for k in range(cap)])
    if not bool(SBool(eng, ok)):
        raise ValueError("invalid literal for int() with base 10: <symbolic>")
    val = z3.IntVal(0)
    for k in range(cap):
        use = z3.And(ln > k, k >= start)
        val = z3.If(use, val * 10 + (s.chars[k] - 48), val)
    return SInt(eng, z3.simplify(z3.If(neg, -val, val)))


def render_int(eng, name, lo, hi):
    """a symbolic integer together with its canonical decimal rendering as BStr (used to *build* inputs)"""
    n = eng.int(name, lo, hi)
    width = max(len(str(lo)), len(str(hi)))
    neg = n.e < 0
    a = z3.If(neg, -n.e, n.e)
    maxd = len(str(max(abs(lo), abs(hi))))
    digs = [(a / (10 ** (maxd - 1 - k))) % 10 for k in range(maxd)]     # most significant first
    nd = z3.IntVal(1)
    for k in range(1, maxd):
        nd = z3.If(a >= 10 ** k, k + 1, nd)
    cap = maxd + (1 if lo < 0 else 0)
    chars = []
    for pos in range(cap):
        # position pos holds: '-' if neg and pos==0 ; else digit number (pos - sign) of the nd-digit rendering
        e = z3.IntVal(32)
        for sgn in ((0, 1) if lo < 0 else (0,)):
            for D in range(1, maxd + 1):
                idx = pos - sgn
                if 0 <= idx < D:
                    cond = z3.And(nd == D, neg if sgn else z3.Not(neg))
                    e = z3.If(cond, 48 + digs[maxd - D + idx], e)
            if sgn and pos == 0:
                e = z3.If(neg, z3.IntVal(45), e)
        chars.append(z3.simplify(e))
    ln = z3.simplify(nd + z3.If(neg, 1, 0))
    s = BStr(eng, chars, ln)
    s.excl = frozenset(chr(k) for k in range(256)) - frozenset("-0123456789")
    s.label = name
    return n, s


def int_field(eng, name, maxdigits=4, allow_neg=True):
    """a symbolic decimal integer field: optional '-' then 1..maxdigits digits (leading zeros allowed), as BStr, together
    with its value as an SInt written as a *linear* expression of the digit variables (sum of digit * 10^position selected
    by the length) -- no div/mod, so obligations about it stay in linear integer arithmetic"""
    neg = z3.Bool(name + "_neg") if allow_neg else z3.BoolVal(False)
    nd = z3.Int(name + "_nd")
    eng.axioms.append(z3.And(nd >= 1, nd <= maxdigits))
    digs = [z3.Int(f"{name}_d{k}") for k in range(maxdigits)]
    for d in digs:
        eng.axioms.append(z3.And(d >= 0, d <= 9))
    # value: digits d0..d(nd-1) most significant first
    val = z3.IntVal(0)
    for D in range(1, maxdigits + 1):
        v = sum(digs[k] * 10 ** (D - 1 - k) for k in range(D))
        val = z3.If(nd == D, v, val)
    val = z3.If(neg, -val, val)
    cap = maxdigits + (1 if allow_neg else 0)
    chars = []
    for pos in range(cap):
        e = z3.IntVal(32)
        if pos < maxdigits:
            e = 48 + digs[pos]
        if allow_neg:
            shifted = (48 + digs[pos - 1]) if 1 <= pos <= maxdigits else z3.IntVal(32)
            e = z3.If(neg, z3.IntVal(45) if pos == 0 else shifted, e)
        chars.append(e)
    ln = nd + z3.If(neg, 1, 0) if allow_neg else nd
    b = BStr(eng, chars, ln)
    b.excl = frozenset(chr(k) for k in range(256)) - frozenset("-0123456789")
    b.label = name
    return SInt(eng, val), b


def _ws_only(x):
    """the atom's charset consists of whitespace only"""
    return all((chr(k) in x.excl) or chr(k) in " \t\n\r\x0b\x0c" for k in range(256)) and not all(chr(k) in x.excl for k in range(256))


class Rope:
    """concatenation of str / BStr segments; supports what line-level code needs without forking on lengths"""

    def __init__(self, eng, segs):
        self.eng = eng
        out = []
        for x in segs:
            if isinstance(x, Rope):
                out += x.segs
            elif isinstance(x, str):
                if x:
                    if out and isinstance(out[-1], str):
                        out[-1] += x
                    else:
                        out.append(x)
            elif isinstance(x, BStr):
                out.append(x)
            else:
                raise TypeError(type(x))
        self.segs = out

    __hash__ = None

    def _norm(self):
        if not self.segs:
            return ""
        if len(self.segs) == 1:
            return self.segs[0]
        return self

    def __add__(self, o):
        return Rope(self.eng, self.segs + [o])._norm()

    def __radd__(self, o):
        return Rope(self.eng, [o] + self.segs)._norm()

    def length(self):
        tot = 0
        for x in self.segs:
            tot = tot + (len(x) if isinstance(x, str) else x.length())
        return tot

    def split(self, sep=None, maxsplit=-1):
        if sep is None or len(sep) != 1:
            raise NotImplementedError("Rope.split needs a one-character separator")
        pieces = [[]]
        for x in self.segs:
            if isinstance(x, str):
                parts = x.split(sep)
                pieces[-1].append(parts[0])
                for p in parts[1:]:
                    pieces.append([p])
            else:
                if sep not in x.excl:
                    raise NotImplementedError(f"segment {x.label} may contain the separator {sep!r}")
                pieces[-1].append(x)
        return [Rope(self.eng, p)._norm() for p in pieces]

    def _first_nonempty(self, reverse=False):
        """index of the first segment that is non-empty on this path (forks on emptiness of symbolic segments)"""
        rng = range(len(self.segs) - 1, -1, -1) if reverse else range(len(self.segs))
        for k in rng:
            x = self.segs[k]
            if isinstance(x, str):
                return k
            if isinstance(x.ln, int):
                if x.ln > 0:
                    return k
                continue
            if bool(SBool(self.eng, x.ln > 0)):
                return k
        return None

    def strip(self, chars=None):
        if chars is not None:
            raise NotImplementedError
        segs = list(self.segs)
        # left
        while segs:
            x = segs[0]
            if isinstance(x, str):
                y = x.lstrip()
                if y:
                    segs[0] = y
                    break
                segs.pop(0)
            else:
                if _ws_only(x):
                    segs.pop(0)
                    continue
                if not (frozenset(" \t\n\r\x0b\x0c") <= x.excl):
                    raise NotImplementedError(f"strip: segment {x.label} may contain whitespace")
                if isinstance(x.ln, int):
                    if x.ln > 0:
                        break
                    segs.pop(0)
                elif bool(SBool(self.eng, x.ln > 0)):
                    break
                else:
                    segs.pop(0)
        while segs:
            x = segs[-1]
            if isinstance(x, str):
                y = x.rstrip()
                if y:
                    segs[-1] = y
                    break
                segs.pop()
            else:
                if _ws_only(x):
                    segs.pop()
                    continue
                if not (frozenset(" \t\n\r\x0b\x0c") <= x.excl):
                    raise NotImplementedError(f"strip: segment {x.label} may contain whitespace")
                if isinstance(x.ln, int):
                    if x.ln > 0:
                        break
                    segs.pop()
                elif bool(SBool(self.eng, x.ln > 0)):
                    break
                else:
                    segs.pop()
        return Rope(self.eng, segs)._norm()

    def startswith(self, p):
        assert isinstance(p, str) and len(p) == 1
        k = self._first_nonempty()
        if k is None:
            return False
        x = self.segs[k]
        if isinstance(x, str):
            return x.startswith(p)
        return bool(SBool(self.eng, x.chars[0] == ord(p)))

    def __bool__(self):
        return self._first_nonempty() is not None

    def __eq__(self, o):
        if isinstance(o, str) and o == "":
            return not bool(self)
        f = self.flatten()
        return f == o

    def __ne__(self, o):
        r = self.__eq__(o)
        return (not r) if isinstance(r, bool) else SBool(self.eng, z3.Not(r.e))

    def flatten(self):
        """single BStr with the same content (forks on the lengths of symbolic segments that are not last)"""
        out = BStr.const(self.eng, "")
        for x in self.segs:
            out = out + x
        return out

    def concretize(self, model):
        return "".join(x if isinstance(x, str) else x.concretize(model) for x in self.segs)

    def __repr__(self):
        return "Rope(%r)" % (self.segs,)


def conc(x, model):
    """concrete value of a proxy / container of proxies under a model"""
    if isinstance(x, (BStr, Rope)):
        return x.concretize(model)
    if isinstance(x, SInt):
        return model.eval(x.e, model_completion=True).as_long()
    if isinstance(x, (list, tuple)):
        return type(x)(conc(y, model) for y in x)
    return x


# ---- instrumenter helpers --------------------------------------------------------------------------
def _sx_int(self, x, *a):
    if isinstance(x, BStr):
        return bstr_int(x)
    if isinstance(x, Rope):
        return bstr_int(x.flatten())
    if isinstance(x, SInt):
        return x
    return builtins.int(x, *a)


def _sx_len(self, x):
    if isinstance(x, (BStr, Rope)):
        return x.length()
    return builtins.len(x)


def _sx_fstr(self, parts):
    if not any(isinstance(p, (BStr, Rope)) for p in parts):
        return "".join(parts)
    return Rope(self.eng, list(parts))._norm()


def _sx_fmt(self, v, conv, spec):
    if isinstance(v, (BStr, Rope)):
        if spec:
            raise NotImplementedError("format spec on symbolic string")
        return v
    if isinstance(v, SInt):
        if spec:
            raise NotImplementedError("format spec on symbolic int")
        return _sint_str(self.eng, v.e, 6)
    if conv == "r":
        v = repr(v)
    elif conv == "s":
        v = str(v)
    return format(v, spec or "")


def _sx_contains(self, item, container):
    if isinstance(item, (BStr, Rope)) and isinstance(container, (tuple, list)):
        for c in container:
            r = (item == c)
            if bool(r):
                return True
        return False
    if isinstance(item, (BStr, Rope)) and not isinstance(container, (str, BStr, Rope)):
        for c in container:        # dict / set / mappingproxy / any iterable container: hashing is useless for a symbolic key
            if bool(item == c):
                return True
        return False
    if isinstance(item, str) and isinstance(container, (BStr, Rope)):
        if len(item) == 1:
            segs = container.segs if isinstance(container, Rope) else [container]
            for s in segs:
                if isinstance(s, str):
                    if item in s:
                        return True
                elif item not in s.excl:
                    alts = [z3.And(s.lnz() > k, s.chars[k] == ord(item)) for k in range(s.cap)]
                    if bool(SBool(self.eng, z3.Or(alts) if alts else z3.BoolVal(False))):
                        return True
            return False
        raise NotImplementedError("substring test on symbolic string")
    return item in container


SX.int = _sx_int
SX.len = _sx_len
SX.fstr = _sx_fstr
SX.fmt = _sx_fmt
SX.contains = _sx_contains
_prev_getitem = SX.getitem


def _sx_getitem(self, obj, key):
    import enum
    if isinstance(obj, Rope):
        obj = obj.flatten()
    if isinstance(key, Rope):
        key = key.flatten()
    if isinstance(key, SInt) and isinstance(obj, (list, tuple, str)):
        return obj[key.concretize()]
    if isinstance(key, BStr) and isinstance(obj, enum.EnumMeta):
        for name, member in obj.__members__.items():
            if bool(key == name):
                return member
        raise KeyError("<symbolic>")
    return _prev_getitem(self, obj, key)


SX.getitem = _sx_getitem


def _visit_call(self, node):
    self.generic_visit(node)
    if isinstance(node.func, ast.Name) and node.func.id in ("len", "str", "int"):
        node.func = ast.Attribute(ast.Name("_sx", ast.Load()), node.func.id, ast.Load())
    return node


Rewriter.visit_Call = _visit_call


def instrument_module_functions(mod, names, eng):
    """instrument several functions of one module so that they call each other's instrumented versions;
    returns dict name -> function.  Sources are read from the module's current file (the working tree)."""
    ns = dict(mod.__dict__)
    ns["_sx"] = SX(eng)
    for n in names:
        fn = getattr(mod, n)
        src = textwrap.dedent(inspect.getsource(fn))
        tree = Rewriter().visit(ast.parse(src))
        ast.fix_missing_locations(tree)
        exec(compile(tree, inspect.getsourcefile(fn), "exec"), ns)
    return ns


# proxies are immutable values: copying them must never duplicate the engine they report to
for _cls in (BStr, Rope):
    _cls.__deepcopy__ = lambda self, memo: self
    _cls.__copy__ = lambda self: self


# ---- float(), str.method(x), containers holding proxies ---------------------------------------------
def const_value(x):
    """the Python str a BStr denotes when all its characters and its length are constants, else None"""
    if isinstance(x, str):
        return x
    if isinstance(x, Rope):
        x = x.flatten()
    ln = x.ln if isinstance(x.ln, int) else z3.simplify(x.ln)
    if not isinstance(ln, int):
        if not z3.is_int_value(ln):
            return None
        ln = ln.as_long()
    out = []
    for c in x.chars[:ln]:
        c = z3.simplify(c)
        if not z3.is_int_value(c):
            return None
        out.append(chr(c.as_long()))
    return "".join(out)


def _sx_float(self, x):
    if isinstance(x, (BStr, Rope)):
        v = const_value(x)
        if v is None:
            raise NotImplementedError("float() of a symbolic string (numeric text fields are taken from concrete tables)")
        return float(v)
    return builtins.float(x)


SX.float = _sx_float


def _sx_strmethod(self, name, obj, *args):
    if isinstance(obj, (BStr, Rope)):
        return getattr(obj, name)(*args)
    return getattr(str, name)(obj, *args)


SX.strmethod = _sx_strmethod


def _has_proxy(container):
    try:
        return any(isinstance(c, (BStr, Rope, SInt)) or (isinstance(c, tuple) and any(isinstance(d, (BStr, Rope, SInt)) for d in c))
                   for c in container)
    except TypeError:
        return False


_prev_contains = SX.contains


def _sx_contains2(self, item, container):
    if isinstance(item, BStr) and isinstance(container, str):
        # symbolic (short) string inside a constant string: fork on the item's length, then compare substrings
        L = item.eng_concretize_len()
        alts = [z3.And([item.chars[k] == ord(container[p + k]) for k in range(L)]) if L else z3.BoolVal(True)
                for p in range(len(container) - L + 1)]
        return bool(SBool(self.eng, z3.Or(alts) if alts else z3.BoolVal(False)))
    if not isinstance(item, (BStr, Rope)) and isinstance(container, (set, frozenset, dict, list, tuple)) and _has_proxy(container):
        for c in container:
            if bool(c == item):
                return True
        return False
    return _prev_contains(self, item, container)


SX.contains = _sx_contains2


def _visit_call2(self, node):
    self.generic_visit(node)
    if isinstance(node.func, ast.Name) and node.func.id in ("len", "str", "int", "float"):
        node.func = ast.Attribute(ast.Name("_sx", ast.Load()), node.func.id, ast.Load())
    elif (isinstance(node.func, ast.Attribute) and isinstance(node.func.value, ast.Name) and node.func.value.id == "str"
          and node.func.attr in ("isalpha", "isdigit", "upper", "lower", "strip", "startswith", "endswith")):
        node = ast.Call(ast.Attribute(ast.Name("_sx", ast.Load()), "strmethod", ast.Load()),
                        [ast.Constant(node.func.attr)] + node.args, node.keywords)
    return node


Rewriter.visit_Call = _visit_call2
SInt.__hash__ = lambda self: 0x51A7     # constant: dict/set lookups fall back to __eq__ (forks on equality, not on the value)


# ---- integers that remember their text (so str() / format() need no div/mod) -------------------------
_bstr_int_plain = bstr_int


def bstr_int(s):          # noqa: F811
    n = _bstr_int_plain(s)
    v = z3.simplify(n.e)
    if z3.is_int_value(v):
        return v.as_long()        # constant text: a plain int (keeps real hashing / ordering semantics, e.g. iteration order of a set of ints)
    n.src = s             # canonical rendering when the field was generated canonical (no leading zeros, no '-0')
    return n


_int_field_plain = int_field


def int_field(eng, name, maxdigits=4, allow_neg=True, canonical=True):      # noqa: F811
    n, b = _int_field_plain(eng, name, maxdigits, allow_neg)
    if canonical:
        nd = z3.Int(name + "_nd")
        d0 = z3.Int(name + "_d0")
        eng.axioms.append(z3.Implies(nd > 1, d0 != 0))
        if allow_neg:
            eng.axioms.append(z3.Implies(z3.Bool(name + "_neg"), n.e != 0))
    n.src = b
    return n, b


def _sx_str2(self, x, *a):
    if isinstance(x, SInt):
        src = getattr(x, "src", None)
        if src is not None:
            return src
        return _sint_str(self.eng, x.e, 6)
    if isinstance(x, (BStr, Rope)):
        return x
    return builtins.str(x, *a)


SX.str = _sx_str2
_sx_int_prev = SX.int


def _sx_int2(self, x, *a):
    if isinstance(x, SInt):
        return x
    return _sx_int_prev(self, x, *a)


SX.int = _sx_int2
_sx_fmt_prev = SX.fmt


def _sx_fmt2(self, v, conv, spec):
    if isinstance(spec, (BStr, Rope)):
        spec = const_value(spec)
    if isinstance(v, SInt):
        s = _sx_str2(self, v)
        if not spec:
            return s
        import re as _re
        m = _re.fullmatch(r"([<>]?)(\d+)d?", spec)
        if not m:
            raise NotImplementedError(f"format spec {spec!r} on a symbolic int")
        return s.ljust(int(m.group(2))) if m.group(1) == "<" else s.rjust(int(m.group(2)))
    return _sx_fmt_prev(self, v, conv, spec)


SX.fmt = _sx_fmt2


def _rope_ljust(self, n, fill=" "):
    return self.flatten().ljust(n, fill)


def _rope_rjust(self, n, fill=" "):
    return self.flatten().rjust(n, fill)


Rope.ljust = _rope_ljust
Rope.rjust = _rope_rjust
Rope.__getitem__ = lambda self, i: self.flatten()[i]
Rope.isalpha = lambda self: self.flatten().isalpha()
Rope.isdigit = lambda self: self.flatten().isdigit()
Rope.upper = lambda self: self.flatten().upper()
Rope.lower = lambda self: self.flatten().lower()
Rope.endswith = lambda self, p: self.flatten().endswith(p)


def _visit_joined(self, node):
    """f-strings: format specs may themselves be f-strings (constant here); pass them as plain strings"""
    self.generic_visit(node)
    parts = []
    for v in node.values:
        if isinstance(v, ast.Constant):
            parts.append(v)
        else:
            conv = {-1: None, 115: "s", 114: "r", 97: "a"}[v.conversion]
            spec = v.format_spec if v.format_spec is not None else ast.Constant(None)
            parts.append(ast.Call(ast.Attribute(ast.Name("_sx", ast.Load()), "fmt", ast.Load()), [v.value, ast.Constant(conv), spec], []))
    return ast.Call(ast.Attribute(ast.Name("_sx", ast.Load()), "fstr", ast.Load()), [ast.List(parts, ast.Load())], [])


Rewriter.visit_JoinedStr = _visit_joined
_fstr_prev = SX.fstr


def _sx_fstr2(self, parts):
    parts = [p for p in parts]
    if not any(isinstance(p, (BStr, Rope)) for p in parts):
        return "".join(parts)
    return Rope(self.eng, parts)._norm()


SX.fstr = _sx_fstr2


# ---- tuples that contain proxies as dict keys / members -----------------------------------------------
Rope.__hash__ = lambda self: 0x5B57


def _proxyish(x):
    return isinstance(x, (BStr, Rope, SInt)) or (isinstance(x, tuple) and any(_proxyish(y) for y in x))


def _eq_proxy(a, b):
    """bool(a == b) where tuples are compared element-wise through the proxies' symbolic equality (forks)"""
    if isinstance(a, tuple) or isinstance(b, tuple):
        if not (isinstance(a, tuple) and isinstance(b, tuple)) or len(a) != len(b):
            return False
        return all(_eq_proxy(x, y) for x, y in zip(a, b))
    r = (a == b) if _proxyish(a) else (b == a)
    return bool(r)


_contains_prev2 = SX.contains


def _sx_contains3(self, item, container):
    if isinstance(item, tuple) and _proxyish(item) and not isinstance(container, (str, BStr, Rope)):
        return any(_eq_proxy(item, c) for c in container)
    return _contains_prev2(self, item, container)


SX.contains = _sx_contains3
_getitem_prev2 = SX.getitem


def _sx_getitem3(self, obj, key):
    if isinstance(key, tuple) and _proxyish(key) and isinstance(obj, dict):
        for k, v in obj.items():
            if _eq_proxy(key, k):
                return v
        raise KeyError("<symbolic tuple>")
    return _getitem_prev2(self, obj, key)


SX.getitem = _sx_getitem3


# ---- slices with a step ------------------------------------------------------------------------------
_bstr_getitem_prev = BStr.__getitem__


def _bstr_getitem_step(self, i):
    if isinstance(i, slice) and i.step not in (None, 1):
        if i.step == -1 and i.start is None and i.stop is None:
            L = self.eng_concretize_len()
            return BStr(self.eng, list(reversed(self.chars[:L])), L)
        raise NotImplementedError(f"slice step {i.step} on a symbolic string")
    return _bstr_getitem_prev(self, i)


BStr.__getitem__ = _bstr_getitem_step


# ---- realisation at C boundaries (os.fspath, str) ------------------------------------------------------
def _bstr_realize(self):
    """concrete text of this string on the current path (forks over the values of its symbolic characters)"""
    from symx.engine import SInt as _SI
    L = self.eng_concretize_len()
    out = []
    for c in self.chars[:L]:
        out.append(chr(c) if isinstance(c, int) else chr(_SI(self.eng, c).concretize()))
    self.eng.realized = getattr(self.eng, "realized", 0) + 1
    return "".join(out)


BStr.realize = _bstr_realize
BStr.__fspath__ = _bstr_realize
_bstr_repr = BStr.__repr__
BStr.__str__ = lambda self: _bstr_realize(self) if getattr(self.eng, "realize_on_str", False) else _bstr_repr(self)
