import sys, time, numpy, z3, fractions, logging
logging.disable(logging.CRITICAL)
sys.path.insert(0,'/scratch/sym')
from symreal import *
import symreal
SymReal.__hash__ = lambda s: hash(("SymReal", s.e.hash()))
import rnapolis.annotator as A
from rnapolis.tertiary import Atom, Residue3D, Structure3D
from rnapolis.common import ResidueAuth

F = fractions.Fraction
def cos_bounds(deg):
    import mpmath
    return None
# Angle proxy: tracks cosine; comparisons via monotonicity of acos
import math as M
def ratcos(deg):
    # rational enclosure of cos(deg) to 1e-15
    c = M.cos(M.radians(deg)); f = F(c).limit_denominator(10**12)
    return f - F(1,10**11), f + F(1,10**11)
class Angle:
    """acos(c) in radians (deg flag) ; only order comparisons are supported"""
    def __init__(s, c, deg=False): s.c=c; s.deg=deg
    def _cmp_const(s, k, op):
        kdeg = k if s.deg else M.degrees(k)
        lo, hi = ratcos(kdeg)
        # acos(c) > k  <=>  c < cos k ; use enclosure: undecided band treated via margin
        if op == '>': return SymBool(s.c.eng, s.c.e < z3.RealVal(lo))
        if op == '<': return SymBool(s.c.eng, s.c.e > z3.RealVal(hi))
    def __gt__(s,o):
        if isinstance(o, Angle): return SymBool(s.c.eng, s.c.e < o.c.e)
        return s._cmp_const(o,'>')
    def __lt__(s,o):
        if isinstance(o, Angle): return SymBool(s.c.eng, s.c.e > o.c.e)
        return s._cmp_const(o,'<')
class MathShim:
    def __getattr__(s,n): return getattr(M,n)
    def acos(s, c): return Angle(c) if isinstance(c, SymReal) else M.acos(c)
    def degrees(s, a): return Angle(a.c, True) if isinstance(a, Angle) else M.degrees(a)
A.math = MathShim()
eng = Engine(timeout_ms=20000)
class KD:
    def __init__(s, pts): s.pts=pts
    def query_pairs(s, r):
        out=set()
        for i in range(len(s.pts)):
            for j in range(i+1,len(s.pts)):
                d2 = sum((s.pts[i][k]-s.pts[j][k])*(s.pts[i][k]-s.pts[j][k]) for k in range(3))
                if d2 <= r*r: out.add((i,j))
        return out
A.KDTree = KD
d = eng.var("d"); eng.axioms.append(d.e > 0)
n1 = numpy.array([eng.var(f"n1{c}") for c in "xyz"]); n2 = numpy.array([eng.var(f"n2{c}") for c in "xyz"])
eng.axioms += [n1[0].e*n1[0].e+n1[1].e*n1[1].e+n1[2].e*n1[2].e == 1, n2[0].e*n2[0].e+n2[1].e*n2[1].e+n2[2].e*n2[2].e == 1]
def mk(num, name, xyz, normal):
    auth = ResidueAuth("A", num, None, name)
    at = Atom(None, None, auth, 1, "N1", xyz[0], xyz[1], xyz[2], 1.0)
    r = Residue3D(None, auth, 1, name, (at,))
    r.__dict__["base_normal_vector"] = normal
    return r
zero = eng.var("zero"); eng.axioms.append(zero.e == 0)
def run():
    r1 = mk(1, "A", (zero*1, zero*1, zero*1), n1); r2 = mk(2, "C", (zero*1, zero*1, d), n2)
    return A.find_stackings(Structure3D([r1, r2]))
t=time.time()
res = eng.explore(run)
print("paths", len(res), "queries", eng.nq, "unknown", eng.unknown, "t", round(time.time()-t,2))
for path, out in res:
    print([str(b)[0] for e,b in path], [(s.nt1.auth.number, s.nt2.auth.number, s.topology.value) for s in out])
