import sys, time, numpy, z3, logging, math as M, itertools
logging.disable(logging.CRITICAL)
sys.path.insert(0,'/scratch/sym')
from symreal import *
SymReal.__hash__ = lambda s: hash(("SymReal", s.e.hash()))
SymReal.__format__ = lambda s, spec: "<sym>"
import rnapolis.annotator as A
from rnapolis.tertiary import Atom, Residue3D, Structure3D
from rnapolis.common import ResidueAuth
eng = Engine(timeout_ms=10000)
ORACLE={"dist":{}, "ang":{}, "tors":{}}
def fresh(kind,key,lo=None,hi=None):
    d=ORACLE[kind]
    if key not in d:
        v=eng.var(f"{kind}_{len(d)}"); d[key]=v
        if lo is not None: eng.axioms.append(v.e>=lo)
        if hi is not None: eng.axioms.append(v.e<=hi)
    return d[key]
class KD:
    def __init__(s, pts): s.pts=pts
    def query_pairs(s, r):
        out=set()
        for i in range(len(s.pts)):
            for j in range(i+1,len(s.pts)):
                if fresh("dist",(s.pts[i],s.pts[j]),0) <= r: out.add((i,j))
        return out
A.KDTree=KD
VEC={}  # id(array)->tag
def angle_between_vectors(v1,v2):
    k=(VEC.get(id(v1),("?",id(v1))), VEC.get(id(v2), ("?",id(v2))))
    return fresh("ang",k,0,z3.RealVal("3.1415926535"))
# vector tags: normals tagged per residue; 'vector' between atoms is a fresh numpy array: tag by content (concrete coords)
def abv(v1,v2):
    def tag(v):
        return VEC.get(id(v)) or tuple(float(x) for x in v)
    return fresh("ang",(tag(v1),tag(v2)),0,z3.RealVal("3.1415926535"))
A.angle_between_vectors=abv
def tors(a1,a2,a3,a4): return fresh("tors",(a1.name,a1.auth.number,a2.name,a3.name,a4.name,a4.auth.number),z3.RealVal("-3.1415926535"),z3.RealVal("3.1415926535"))
A.torsion_angle=tors
class MathShim:
    def __getattr__(s,n): return getattr(M,n)
    def degrees(s,a): return a*(180/M.pi) if isinstance(a,SymReal) else M.degrees(a)
A.math=MathShim()
cnt=itertools.count()
def mk(num,name,atoms):
    auth=ResidueAuth("A",num,None,name)
    ats=tuple(Atom(None,None,auth,1,n,float(next(cnt)),float(num),0.0,1.0) for n in atoms)
    r=Residue3D(None,auth,1,name,ats)
    nv=numpy.array([0.0,0.0,1.0+num]); VEC[id(nv)]=("normal",num)
    r.__dict__["base_normal_vector"]=nv
    return r
def run():
    global cnt; cnt=itertools.count()
    r1=mk(1,"G",["N1","N2","C1'","N9"]); r2=mk(2,"C",["N3","O2","C1'","N1"])
    return A.find_pairs(Structure3D([r1,r2]))
t=time.time(); res=eng.explore(run, maxpaths=100000); print("paths",len(res),"queries",eng.nq,"unknown",eng.unknown,"t",round(time.time()-t,2))
from collections import Counter
print(Counter(str([(b.lw.value) for b in out[0]]) for p,out in res))
print({k:len(v) for k,v in ORACLE.items()})
