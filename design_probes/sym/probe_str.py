import z3, time
S = z3.StringVal
def ljust(s, n):
    return z3.If(z3.Length(s) >= n, s, z3.Concat(s, z3.SubString(S(" "*n), 0, n - z3.Length(s))))
def rjust(s, n):
    return z3.If(z3.Length(s) >= n, s, z3.Concat(z3.SubString(S(" "*n), 0, n - z3.Length(s)), s))
WS = z3.Union(z3.Re(" "), z3.Re("\t"), z3.Re("\n"), z3.Re("\r"), z3.Re("\x0b"), z3.Re("\x0c"))
ANY = z3.AllChar(z3.ReSort(z3.StringSort()))
NWS = z3.Diff(ANY, WS) if hasattr(z3,'Diff') else z3.Intersect(ANY, z3.Complement(WS))
cnt=[0]
def strip(s, sol):
    cnt[0]+=1
    a=z3.String(f"_a{cnt[0]}"); r=z3.String(f"_r{cnt[0]}"); b=z3.String(f"_b{cnt[0]}")
    sol.add(s == z3.Concat(a, r, b))
    sol.add(z3.InRe(a, z3.Star(WS)), z3.InRe(b, z3.Star(WS)))
    sol.add(z3.InRe(r, z3.Union(z3.Re(""), NWS, z3.Concat(NWS, z3.Star(ANY), NWS))))
    return r
sol = z3.Solver(); sol.set("timeout", 120000)
rec=z3.String("rec"); name=z3.String("name"); alt=z3.String("alt"); res=z3.String("res"); chain=z3.String("chain"); icode=z3.String("icode")
serial=z3.Int("serial"); resseq=z3.Int("resseq")
PRINT = z3.Range("!", "~")
def field(s, lo, hi):
    sol.add(z3.Length(s) >= lo, z3.Length(s) <= hi, z3.InRe(s, z3.Star(PRINT)))
sol.add(z3.Or(rec == S("ATOM"), rec == S("HETATM")))
field(name,1,4); field(alt,0,1); field(res,1,3); field(chain,1,1); field(icode,0,1)
sol.add(serial>=0, serial<=99999, resseq>=0, resseq<=9999)
sserial = z3.IntToStr(serial); sresseq = z3.IntToStr(resseq)
isalpha0 = z3.InRe(z3.SubString(name,0,1), z3.Union(z3.Range("a","z"), z3.Range("A","Z")))
name_fmt = z3.If(z3.And(z3.Length(name) < 4, isalpha0), ljust(z3.Concat(S(" "), name), 4), ljust(name, 4))
line = z3.Concat(ljust(rec,6), rjust(sserial,5), S(" "), name_fmt, ljust(z3.SubString(alt,0,1),1), rjust(res,3), S(" "), ljust(z3.SubString(chain,0,1),1), rjust(sresseq,4), ljust(z3.SubString(icode,0,1),1), S("   "), S("   1.000   2.000   3.000  1.00  0.00           C  "))
line = ljust(line, 80)
# parse side
p_rec = strip(z3.SubString(line,0,6), sol)
p_serial = strip(z3.SubString(line,6,5), sol)
p_name = strip(z3.SubString(line,12,4), sol)
p_alt = strip(z3.SubString(line,16,1), sol)
p_res = strip(z3.SubString(line,17,3), sol)
p_chain = strip(z3.SubString(line,21,1), sol)
p_resseq = strip(z3.SubString(line,22,4), sol)
p_icode = strip(z3.SubString(line,26,1), sol)
bad = z3.Or(p_rec != rec, p_serial != sserial, p_name != name, p_alt != alt, p_res != res, p_chain != chain, p_resseq != sresseq, p_icode != icode, z3.Length(line) != 80)
sol.add(bad)
t=time.time(); r=sol.check(); print(r, round(time.time()-t,2))
if r==z3.sat:
    m=sol.model(); print({str(v):m[v] for v in [rec,name,alt,res,chain,icode,serial,resseq]}); print(repr(m.eval(line)))
