import sys, time, z3, logging, string
logging.disable(logging.CRITICAL)
sys.path.insert(0,'/scratch/sym')
from symreal import Engine, SymBool
from bstr import SInt
from rnapolis.common import *
eng=Engine(timeout_ms=20000)
def concretize(self):
    for v in range(0, 64):
        if SymBool(self.eng, self.e==v): return v
    raise RuntimeError("no value")
SInt.__index__=concretize
N=int(sys.argv[1])
P=[z3.Int(f"p{i}") for i in range(N)]
for i in range(N):
    eng.axioms += [P[i]>=0, P[i]<=N, P[i]!=i+1]
    for j in range(N):
        eng.axioms.append(z3.Implies(P[i]==j+1, P[j]==i+1))
OPEN="([{<"+string.ascii_uppercase; CLOSE=")]}>"+string.ascii_lowercase
def decode(s):
    st={c:[] for c in OPEN}; m=dict(zip(CLOSE,OPEN)); pr=set()
    for i,c in enumerate(s):
        if c in OPEN: st[c].append(i)
        elif c in CLOSE:
            if not st[m[c]]: return None
            pr.add((st[m[c]].pop()+1,i+1))
        elif c!='.': return None
    if any(st.values()): return None
    return pr
def run():
    p=[SInt(eng,x).__index__() for x in P]
    b=BpSeq([Entry(i+1,"ABCDEFGHIJKL"[i],p[i]) for i in range(N)])
    pairs={(i+1,p[i]) for i in range(N) if p[i]>i+1}
    ok = decode(b.fcfs.structure)==pairs and all(decode(d.structure)==pairs for d in b.all_dot_brackets)
    return ok
t=time.time(); res=eng.explore(run, maxpaths=10**7); print("N",N,"paths",len(res),"queries",eng.nq,"t",round(time.time()-t,2), "bad", sum(1 for p,o in res if not o))
