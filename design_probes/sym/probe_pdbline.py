import sys, time, z3, logging
logging.disable(logging.CRITICAL)
sys.path.insert(0,'/scratch/sym')
from symreal import Engine
from bstr import *
import rnapolis.parser_v2 as P2
eng=Engine(timeout_ms=60000)
fmt=instrument(P2._format_pdb_atom_line, eng)
name=BStr.var(eng,"name",4,1); alt=BStr.var(eng,"alt",1); res=BStr.var(eng,"res",3,1); chain=BStr.var(eng,"chain",1,1); icode=BStr.var(eng,"icode",1); elem=BStr.var(eng,"elem",2)
for b in (name,alt,res,chain,icode,elem):
    for c in b.chars: eng.axioms.append(c!=32)
serial=SInt(eng,z3.Int("serial")); resseq=SInt(eng,z3.Int("resseq"))
eng.axioms += [serial.e>=0, serial.e<=99999, resseq.e>=0, resseq.e<=9999]
data=dict(record_name="HETATM", serial=serial, name=name, altLoc=alt, resName=res, chainID=chain, resSeq=resseq, iCode=icode, x=-123.456, y=0.0, z=9999.999, occupancy=1.0, tempFactor=25.5, element=elem, charge="1+")
def run():
    line=fmt(data)
    return line
t=time.time(); res_=eng.explore(run); print("paths",len(res_),"queries",eng.nq,"unknown",eng.unknown,"t",round(time.time()-t,2),flush=True)
# obligation per path: length 80 and slices recover fields
tot=0
for path,line in res_:
    s=z3.Solver(); s.set("timeout",60000)
    for a in eng.axioms: s.add(a)
    for e,b in path: s.add(e if b else z3.Not(e))
    eng2=Engine(); eng2.axioms=[]; 
    def sl(a,b): return line[a:b].strip()
    def eqz(x,y): return (x==y).e
    sser=SX(eng).str(serial,5); sres=SX(eng).str(resseq,4)
    good=z3.And(line.lnz()==80, eqz(sl(12,16),name), eqz(sl(16,17),alt), eqz(sl(17,20),res), eqz(sl(21,22),chain), eqz(sl(26,27),icode), eqz(sl(76,78),elem), eqz(sl(6,11),sser), eqz(sl(22,26),sres), eqz(sl(0,6),"HETATM"), eqz(sl(30,38),"-123.456"), eqz(sl(46,54),"9999.999"), eqz(sl(78,80),"1+"))
    s.add(z3.Not(good))
    t=time.time(); r=s.check(); tot+=time.time()-t
    print([str(b)[0] for e,b in path], r, round(time.time()-t,2), flush=True)
    if r==z3.sat:
        m=s.model(); print({k:(v.concretize(m) if isinstance(v,BStr) else v) for k,v in data.items() if isinstance(v,BStr)}, m.eval(serial.e), m.eval(resseq.e), repr(line.concretize(m)))
