"""Prototype: proxy reals over z3 + path exploration (DSE) for real numeric code."""
import z3, fractions, math as _math, time

class Engine:
    def __init__(self, timeout_ms=20000):
        self.solver = z3.Solver()
        self.solver.set("timeout", timeout_ms)
        self.axioms = []      # defining constraints for aux vars (always asserted)
        self.path = []        # decisions taken on this run [(expr, bool)]
        self.prefix = []      # forced decisions (replay)
        self.todo = []        # stack of prefixes to explore
        self.nq = 0; self.tq = 0.0; self.unknown = 0
        self.fresh = 0
    def var(self, name):
        return SymReal(self, z3.Real(name))
    def freshvar(self, stem):
        self.fresh += 1
        return z3.Real(f"_{stem}{self.fresh}")
    def check(self, *extra):
        self.nq += 1; t=time.time()
        na=getattr(self,"_nax",0)
        for a in self.axioms[na:]: self.solver.add(a)
        self._nax=len(self.axioms)
        self.solver.push()
        for e,b in self.path: self.solver.add(e if b else z3.Not(e))
        for e in extra: self.solver.add(e)
        r = self.solver.check()
        m = self.solver.model() if r == z3.sat else None
        self.solver.pop()
        self.tq += time.time()-t
        if r == z3.unknown: self.unknown += 1
        return str(r), m
    def branch(self, expr):
        expr = z3.simplify(expr)
        if z3.is_true(expr): return True
        if z3.is_false(expr): return False
        k = len(self.path)
        if k < len(self.prefix):
            b = self.prefix[k][1]
            self.path.append((expr, b)); return b
        rt,_ = self.check(expr)
        rf,_ = self.check(z3.Not(expr))
        can_t = rt != 'unsat'; can_f = rf != 'unsat'
        if can_t and can_f:
            self.todo.append(self.path + [(expr, False)])
            self.path.append((expr, True)); return True
        b = can_t
        self.path.append((expr, b)); return b
    def explore(self, fn, maxpaths=10000):
        """run fn() over all feasible paths; fn returns list of (name, z3 bool obligation)"""
        self.todo = [[]]; results = []
        while self.todo and len(results) < maxpaths:
            self.prefix = self.todo.pop(); self.path = []
            out = fn()
            results.append((list(self.path), out))
        return results

def _z(e, o):
    if isinstance(o, SymReal): return o.e
    if isinstance(o, (int,)): return z3.RealVal(o)
    if isinstance(o, float): return z3.RealVal(fractions.Fraction(o).limit_denominator(10**15)) if o != int(o) else z3.RealVal(int(o))
    if isinstance(o, fractions.Fraction): return z3.RealVal(o)
    return NotImplemented

class SymBool:
    def __init__(s, eng, e): s.eng=eng; s.e=e
    def __bool__(s): return s.eng.branch(s.e)

class SymReal:
    def __init__(s, eng, e): s.eng=eng; s.e=e
    def _w(s,e): return SymReal(s.eng, e)
    def __add__(s,o): z=_z(s,o); return NotImplemented if z is NotImplemented else s._w(s.e+z)
    def __radd__(s,o): z=_z(s,o); return NotImplemented if z is NotImplemented else s._w(z+s.e)
    def __sub__(s,o): z=_z(s,o); return NotImplemented if z is NotImplemented else s._w(s.e-z)
    def __rsub__(s,o): z=_z(s,o); return NotImplemented if z is NotImplemented else s._w(z-s.e)
    def __mul__(s,o): z=_z(s,o); return NotImplemented if z is NotImplemented else s._w(s.e*z)
    def __rmul__(s,o): z=_z(s,o); return NotImplemented if z is NotImplemented else s._w(z*s.e)
    def __truediv__(s,o):
        z=_z(s,o)
        if z is NotImplemented: return z
        return s._w(s.e/z)
    def __rtruediv__(s,o): z=_z(s,o); return NotImplemented if z is NotImplemented else s._w(z/s.e)
    def __neg__(s): return s._w(-s.e)
    def __pos__(s): return s
    def __abs__(s): return s._w(z3.If(s.e>=0, s.e, -s.e))
    def sqrt(s):
        key = z3.simplify(s.e)
        memo = s.eng.__dict__.setdefault("sqrtmemo", {})
        if key in memo: return s._w(memo[key])
        if z3.is_rational_value(key):
            import fractions, math
            f = fractions.Fraction(key.numerator_as_long(), key.denominator_as_long())
            rn, rd = math.isqrt(f.numerator), math.isqrt(f.denominator)
            if rn*rn == f.numerator and rd*rd == f.denominator:
                return s._w(z3.RealVal(fractions.Fraction(rn, rd)))
        r = s.eng.freshvar("sqrt")
        s.eng.axioms.append(z3.And(r >= 0, r*r == key))
        memo[key] = r
        return s._w(r)
    def __lt__(s,o): return SymBool(s.eng, s.e < _z(s,o))
    def __le__(s,o): return SymBool(s.eng, s.e <= _z(s,o))
    def __gt__(s,o): return SymBool(s.eng, s.e > _z(s,o))
    def __ge__(s,o): return SymBool(s.eng, s.e >= _z(s,o))
    def __eq__(s,o): return SymBool(s.eng, s.e == _z(s,o))
    def __ne__(s,o): return SymBool(s.eng, s.e != _z(s,o))
    __hash__ = None
    def item(s): return s
    def conjugate(s): return s
    def __repr__(s): return f"<{s.e}>"
