import sys, time, numpy, z3, logging, math as M
logging.disable(logging.CRITICAL)
sys.path.insert(0,'/scratch/sym')
from symreal import *
SymReal.__hash__ = lambda s: hash(("SymReal", s.e.hash()))
SymReal.__bool__ = lambda s: bool(SymBool(s.eng, s.e != 0))
import rnapolis.clashfinder as CF
from rnapolis.tertiary import Atom, Residue3D
from rnapolis.common import ResidueAuth
eng = Engine(timeout_ms=20000)
class KD:
    def __init__(s, pts): s.pts=pts
    def query_pairs(s, r):
        out=set()
        for i in range(len(s.pts)):
            for j in range(i+1,len(s.pts)):
                d2 = sum((s.pts[i][k]-s.pts[j][k])*(s.pts[i][k]-s.pts[j][k]) for k in range(3))
                if d2 <= r*r: out.add((i,j))
        return out
CF.KDTree = KD
class MathShim:
    def __getattr__(s,n): return getattr(M,n)
    def isclose(s,a,b,rel_tol=1e-09,abs_tol=0.0):
        if isinstance(a,SymReal):
            d=abs(a-b); m=abs(a) if True else 0
            big = abs(a)
            lim = big*rel_tol
            # max(rel_tol*max(|a|,|b|), abs_tol)
            return bool(d <= lim) or bool(d <= abs(b)*rel_tol)
        return M.isclose(a,b)
CF.math = MathShim()
d=eng.var("d"); o1=eng.var("o1"); o2=eng.var("o2"); eng.axioms += [d.e>=0, o1.e>0,o1.e<=1,o2.e>0,o2.e<=1]
opts=[z3.Bool(f"opt{k}") for k in range(5)]
def mk(num,name,xyz,occ):
    auth=ResidueAuth("A",num,None,"G"); at=Atom(None,None,auth,1,name,xyz[0],xyz[1],xyz[2],occ)
    r=Residue3D(None,auth,1,"G",(at,)); r.__dict__["is_nucleotide"]=True; return r
zero=eng.var("zero"); eng.axioms.append(zero.e==0)
def run():
    o=[bool(SymBool(eng,b)) for b in opts]
    r1=mk(1,"P",(zero*1,zero*1,zero*1),o1); r2=mk(2,"OP1",(zero*1,zero*1,d),o2)
    return o, CF.find_clashes([r1,r2], *o)
t=time.time(); res=eng.explore(run); print("paths",len(res),"queries",eng.nq,"unknown",eng.unknown,"t",round(time.time()-t,2))
print(sum(1 for p,(o,c) in res if c), "paths with a clash")
