import sys, time, numpy, z3
sys.path.insert(0,'/scratch/sym')
from symreal import *
import rnapolis.tertiary as T
import rnapolis.tertiary_v2 as T2
class Atan2:
    def __init__(s,y,x): s.y=y; s.x=x
class MathShim:
    def __getattr__(s, n): return getattr(_math, n)
    def atan2(s, y, x): return Atan2(y,x)
    def isnan(s, v): return False if isinstance(v,(Atan2,SymReal)) else _math.isnan(v)
T.math = MathShim()
class NpShim:
    def __getattr__(s,n): return getattr(numpy,n)
    def arctan2(s,y,x): return Atan2(y,x)
T2.np = NpShim()
which = sys.argv[1]
eng = Engine(timeout_ms=30000)
l=eng.var("l"); a=eng.var("a"); b=eng.var("b"); x=eng.var("x"); y=eng.var("y"); z=eng.var("z")
eng.axioms += [l.e>0, a.e>0]
P=[numpy.array([a,0,b],dtype=object), numpy.array([0,0,0],dtype=object), numpy.array([0,0,l],dtype=object), numpy.array([x,y,z],dtype=object)]
def run():
    if which=="v1": return T.calculate_torsion_angle_coords(*P)
    return T2.calculate_torsion_angle(*P)
t=time.time()
res = eng.explore(run)
print("paths", len(res), "queries", eng.nq, "unknown", eng.unknown, "t", round(time.time()-t,2), flush=True)
for path,out in res:
    print([str(bb) for e,bb in path], type(out).__name__, out if not isinstance(out,Atan2) else "", flush=True)
    if isinstance(out, Atan2):
        Y,X = out.y.e, out.x.e
        s=z3.Solver(); s.set("timeout",120000)
        for ax in eng.axioms: s.add(ax)
        for e,bb in path: s.add(e if bb else z3.Not(e))
        s.add(z3.Or(Y*x.e - X*y.e != 0, X*x.e + Y*y.e <= 0))
        t=time.time(); r=s.check(); print("verdict", r, round(time.time()-t,2), s.model() if r==z3.sat else "", flush=True)
