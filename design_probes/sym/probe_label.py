import sys, time, z3, logging
logging.disable(logging.CRITICAL)
sys.path.insert(0,'/scratch/sym'); sys.path.insert(0,'/scratch')
from symreal import Engine
from bstr import *
import rnapolis.adapter as AD
from h_c19 import ref
eng=Engine(timeout_ms=20000)
f=instrument(AD.unify_classification, eng)
CAP=int(sys.argv[1])
label=BStr.var(eng,"label",CAP)
def run():
    try: return ("ret", f(label))
    except Exception as e: return ("exc", type(e).__name__)
t=time.time(); res=eng.explore(run); print("paths",len(res),"queries",eng.nq,"unknown",eng.unknown,"t",round(time.time()-t,2))
# per path: get one witness and also check determinism of outcome; compare with reference on ALL strings in path via enumeration of ref-classes
from collections import Counter
print(Counter(str(o) for p,o in res).most_common(40))
# obligation: for each path, no string in the path has ref(label) != outcome. ref is python; evaluate by model enumeration over ref's distinct outcomes:
# encode the reference language in z3 directly
