import sys, time, z3, logging, string
logging.disable(logging.CRITICAL)
sys.path.insert(0,'/scratch/sym')
from symreal import Engine, SymBool
from bstr import SInt
import rnapolis.common as C
from rnapolis.common import *
from rnapolis.tertiary import *
from rnapolis.parser import read_3d_structure
eng=Engine(timeout_ms=20000)
def concretize(self):
    r,m=self.eng.check()
    assert r=='sat'
    v=m.eval(self.e,model_completion=True).as_long()
    # fork on value: first try equality
    if SymBool(self.eng, self.e==v): return v
    # other branch: re-solve under the new path condition
    return concretize(self)
SInt.__index__=concretize
C.BpSeq.convert_to_dot_bracket = lambda self, solver: self.fcfs   # probe only (fcfs() defect)
with open("/repo/tests/1A1T_1_B.cif") as f: S3=read_3d_structure(f)
NTS=[r for r in S3.residues if r.is_nucleotide][:4]; STRUCT=Structure3D(NTS)
ABSENT=Residue(None, ResidueAuth("Z",999,None,"G"))
RES=[Residue(r.label,r.auth) for r in NTS]+[ABSENT]; LWS=[LeontisWesthof.cWW, LeontisWesthof.tHS]
OPEN="([{<"+string.ascii_uppercase; CLOSE=")]}>"+string.ascii_lowercase
def decode(s):
    st={c:[] for c in OPEN}; m=dict(zip(CLOSE,OPEN)); pr=set()
    for i,c in enumerate(s):
        if c in OPEN: st[c].append(i)
        elif c in CLOSE:
            if not st[m[c]]: return None
            pr.add((st[m[c]].pop()+1,i+1))
        elif c!='.': return None
    if any(st.values()): return None
    return pr
K=int(sys.argv[1])
ent=[(SInt(eng,z3.Int(f"a{k}")),SInt(eng,z3.Int(f"b{k}")),SInt(eng,z3.Int(f"l{k}"))) for k in range(K)]
for a,b,l in ent: eng.axioms += [a.e>=0,a.e<5,b.e>=0,b.e<5,a.e!=b.e,l.e>=0,l.e<2]
def run():
    e=[(RES[a],RES[b],LWS[l]) for a,b,l in ent]
    bps=[BasePair(x,y,lw,None) for x,y,lw in e]
    m=Mapping2D3D(STRUCT,bps,[],False); b=m.bpseq; n=len(NTS)
    ok = [x.index_ for x in b.entries]==list(range(1,n+1)) and all(x.pair==0 or b.entries[x.pair-1].pair==x.index_ for x in b.entries)
    rows=m.extended_dot_bracket.split("\n")
    for row in rows[2:]:
        lw,s=row.split(" ")
        if len(s)!=n or decode(s) is None: ok=False
    return ok, [(x.nt1.auth.number,x.nt2.auth.number,x.lw.value) for x in bps]
t=time.time(); res=eng.explore(run, maxpaths=10**6); print("paths",len(res),"queries",eng.nq,"t",round(time.time()-t,2))
bad=[o for p,o in res if not o[0]]
print("violations",len(bad), bad[:2])
