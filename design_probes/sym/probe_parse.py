import sys, time, z3, logging, io, ast, inspect, textwrap
logging.disable(logging.CRITICAL)
sys.path.insert(0,'/scratch/sym')
from symreal import Engine, SymBool
from bstr import *
import rnapolis.parser as P
eng=Engine(timeout_ms=20000)
# constant hash so native dict/set use __eq__
BStr.__hash__=lambda s: 0
SInt.__hash__=lambda s: 0
def _bstr_concrete(s):
    if isinstance(s.ln,int) and all(z3.is_int_value(z3.simplify(c)) for c in s.chars[:s.ln]):
        return "".join(chr(z3.simplify(c).as_long()) for c in s.chars[:s.ln])
    return None
def sx_int(self, x):
    if isinstance(x,BStr):
        c=_bstr_concrete(x)
        if c is not None: return SInt(self.eng, z3.IntVal(int(c)))
        # bounded decimal parse: optional '-' then digits (all of length ln); else ValueError
        ln=x.lnz(); val=z3.IntVal(0); ok=ln>0
        neg = x.chars[0]==45
        for k in range(x.cap):
            isd=z3.And(x.chars[k]>=48,x.chars[k]<=57)
            ok=z3.And(ok, z3.Implies(ln>k, z3.Or(isd, z3.And(k==0, neg, ln>1))))
            val=z3.If(z3.And(ln>k,isd), val*10+(x.chars[k]-48), val)
        if not SymBool(self.eng, ok): raise ValueError("invalid literal for int()")
        return SInt(self.eng, z3.simplify(z3.If(neg,-val,val)))
    return int(x)
def sx_float(self, x):
    if isinstance(x,BStr):
        c=_bstr_concrete(x)
        assert c is not None, "float() of symbolic string not modelled"
        return float(c)
    return float(x)
SX.int=sx_int; SX.float=sx_float
_contains0=SX.contains
def _contains(self,item,container):
    if isinstance(item,BStr) and isinstance(container,str):
        c=_bstr_concrete(item)
        if c is not None: return c in container
        L=item.eng_concretize_len()
        if L==0: return True
        for k in range(len(container)-L+1):
            if item[:L]==container[k:k+L]: return True
        return False
    if isinstance(item,str) and isinstance(container,set):
        return item in container
    return _contains0(self,item,container)
SX.contains=_contains
_strip0=BStr.strip
def _strip_fast(s):
    c=_bstr_concrete(s)
    if c is not None: return BStr.const(s.eng, c.strip())
    return _strip0(s)
BStr.strip=_strip_fast
_vc0=Rewriter.visit_Call
def _vc(self,node):
    self.generic_visit(node)
    if isinstance(node.func,ast.Name) and node.func.id in ('len','str','int','float'):
        node.func=ast.Attribute(ast.Name('_sx',ast.Load()),node.func.id,ast.Load())
    return node
Rewriter.visit_Call=_vc
def instrument_module(mod, eng):
    src=inspect.getsource(mod)
    tree=Rewriter().visit(ast.parse(src)); ast.fix_missing_locations(tree)
    ns={'__name__':mod.__name__+"_sx",'_sx':SX(eng)}
    exec(compile(tree, mod.__file__, 'exec'), ns)
    return ns
NS=instrument_module(P, eng)
# emitter: build ATOM lines with symbolic model numbers / resnum field / chain / icode
def line(serial,name,resn,chain,num4,icode,x,y,z,occ):
    c=lambda t: BStr.const(eng,t)
    nm=(" "+name).ljust(4)
    return c(f"ATOM  {serial:>5} {nm} {resn:>3} ")+chain+num4+icode+c(f"   {x:8.3f}{y:8.3f}{z:8.3f}{occ:6.2f}{0.0:6.2f}           C  ")
def modelline(m4): return BStr.const(eng,"MODEL     ")+m4
class FakeFile:
    def __init__(s,lines): s.lines=lines; s.name="x.pdb"
    def seek(s,n): pass
    def readlines(s): return s.lines
def numfield(name,cap=4):
    # right-justified integer text of width cap: spaces then optional '-' then digits
    b=BStr(eng,[z3.Int(f"{name}_c{k}") for k in range(cap)],cap)
    for k,ch in enumerate(b.chars):
        eng.axioms.append(z3.Or(ch==32, ch==45, z3.And(ch>=48,ch<=57)))
        if k>0:
            eng.axioms.append(z3.Implies(b.chars[k]==32, b.chars[k-1]==32))
            eng.axioms.append(z3.Implies(b.chars[k]==45, b.chars[k-1]==32))
    eng.axioms.append(z3.And(b.chars[cap-1]>=48,b.chars[cap-1]<=57))
    return b
m1=numfield("m1"); m2=numfield("m2")
for m in (m1,m2):
    eng.axioms.append(z3.And([z3.Or(c==32, c==49, c==50) for c in m.chars]+[m.chars[0]==32,m.chars[1]==32,m.chars[2]==32]))
n1=numfield("n1"); n2=numfield("n2")
for n in (n1,n2):
    eng.axioms.append(z3.And(n.chars[0]==32,n.chars[1]==32, z3.Or(n.chars[2]==32,n.chars[2]==45), z3.Or(n.chars[3]==49,n.chars[3]==50)))
ch1=BStr.var(eng,"ch1",1,1,"AB"); ch2=BStr.var(eng,"ch2",1,1,"AB")
ic=BStr.const(eng," ")
def run():
    lines=[modelline(m1), line(1,"C1'","G",ch1,n1,ic,0,0,0,1.0), modelline(m2), line(2,"C1'","G",ch2,n2,ic,5,5,5,1.0)]
    want = SInt(eng, z3.IntVal(2))
    s=NS['read_3d_structure'](FakeFile(lines), want)
    return [(r.model, r.auth.chain, r.auth.number, [a.x for a in r.atoms]) for r in s.residues]
t=time.time(); res=eng.explore(run); print("paths",len(res),"queries",eng.nq,"unknown",eng.unknown,"t",round(time.time()-t,2))
for path,out in res[:40]:
    s=z3.Solver()
    for a in eng.axioms: s.add(a)
    for e,b in path: s.add(e if b else z3.Not(e))
    assert s.check()==z3.sat; mdl=s.model()
    def cv(v):
        if isinstance(v,BStr): return v.concretize(mdl)
        if isinstance(v,SInt): return mdl.eval(v.e,model_completion=True).as_long()
        return v
    print("m1",cv(m1).strip(),"m2",cv(m2).strip(),"res1",cv(ch1),cv(n1).strip(),"res2",cv(ch2),cv(n2).strip(),"->",[(cv(a),cv(b),cv(c),d) for a,b,c,d in out])
