"""Prototype bounded symbolic strings (char arrays over z3 Ints) + AST instrumenter."""
import ast, inspect, textwrap, z3, types, builtins
from symreal import Engine, SymBool

class SInt:
    def __init__(s, eng, e): s.eng=eng; s.e=e
    def _z(s,o): return o.e if isinstance(o,SInt) else z3.IntVal(o)
    def __add__(s,o): return SInt(s.eng, s.e+s._z(o))
    __radd__=__add__
    def __sub__(s,o): return SInt(s.eng, s.e-s._z(o))
    def __rsub__(s,o): return SInt(s.eng, s._z(o)-s.e)
    def __lt__(s,o): return SymBool(s.eng, s.e<s._z(o))
    def __le__(s,o): return SymBool(s.eng, s.e<=s._z(o))
    def __gt__(s,o): return SymBool(s.eng, s.e>s._z(o))
    def __ge__(s,o): return SymBool(s.eng, s.e>=s._z(o))
    def __eq__(s,o): return SymBool(s.eng, s.e==s._z(o))
    def __ne__(s,o): return SymBool(s.eng, s.e!=s._z(o))
    __hash__=None

def _iv(x): return z3.IntVal(x)
class BStr:
    """chars: list of z3 Int exprs (capacity), ln: z3 Int expr or python int; invariant 0<=ln<=cap"""
    def __init__(s, eng, chars, ln):
        s.eng=eng; s.chars=list(chars); s.ln=ln
    @staticmethod
    def const(eng, t): return BStr(eng, [_iv(ord(c)) for c in t], len(t))
    @staticmethod
    def var(eng, name, cap, minlen=0, charset=None):
        chars=[z3.Int(f"{name}_c{k}") for k in range(cap)]; ln=z3.Int(f"{name}_len")
        eng.axioms.append(z3.And(ln>=minlen, ln<=cap))
        for c in chars:
            eng.axioms.append(z3.Or([c==ord(a) for a in charset]) if charset else z3.And(c>=32, c<=126))
        return BStr(eng, chars, ln)
    @property
    def cap(s): return len(s.chars)
    def lnz(s): return _iv(s.ln) if isinstance(s.ln,int) else s.ln
    def _co(s,o): return o if isinstance(o,BStr) else BStr.const(s.eng,o)
    def at(s,k):  # z3 char at concrete k (garbage beyond ln)
        return s.chars[k] if k<s.cap else _iv(-1)
    def __len__(s): raise TypeError("use _sx.len")
    def length(s): return s.ln if isinstance(s.ln,int) else SInt(s.eng, s.ln)
    def __eq__(s,o):
        if not isinstance(o,(BStr,str)): return False
        o=s._co(o); n=max(s.cap,o.cap)
        conj=[s.lnz()==o.lnz()]
        for k in range(min(s.cap,o.cap)):
            conj.append(z3.Implies(s.lnz()>k, s.chars[k]==o.chars[k]))
        if s.cap!=o.cap: conj.append(s.lnz()<=min(s.cap,o.cap))
        return SymBool(s.eng, z3.And(conj))
    def __ne__(s,o):
        r=s.__eq__(o)
        return (not r) if isinstance(r,bool) else SymBool(s.eng, z3.Not(r.e))
    __hash__=None
    def __bool__(s): return bool(SymBool(s.eng, s.lnz()>0))
    def startswith(s,p):
        assert isinstance(p,str)
        return SymBool(s.eng, z3.And([s.lnz()>=len(p)]+[s.at(k)==ord(c) for k,c in enumerate(p)]))
    def endswith(s,p):
        assert isinstance(p,str); m=len(p)
        # fork-free: OR over possible lengths
        alts=[]
        for L in range(m, s.cap+1):
            alts.append(z3.And([s.lnz()==L]+[s.chars[L-m+k]==ord(c) for k,c in enumerate(p)]))
        return SymBool(s.eng, z3.Or(alts) if alts else z3.BoolVal(False))
    def _slice(s, a, b):
        # concrete python-style bounds a,b (may be None / negative)
        if (a is not None and a<0) or (b is not None and b<0):
            # negative index: case split on length (concretize length by forking)
            L=s.eng_concretize_len()
            t=list(range(L))[slice(a,b)]
            return BStr(s.eng,[s.chars[k] for k in t], len(t))
        a=0 if a is None else a; b=s.cap if b is None else min(b,s.cap)
        if a>=b: return BStr(s.eng,[],0)
        chars=s.chars[a:b]
        if isinstance(s.ln,int): return BStr(s.eng, chars[:max(0,min(s.ln,b)-a)], max(0,min(s.ln,b)-a))
        ln=z3.If(s.ln<=a, 0, z3.If(s.ln>=b, b-a, s.ln-a))
        return BStr(s.eng, chars, z3.simplify(ln))
    def eng_concretize_len(s):
        if isinstance(s.ln,int): return s.ln
        for L in range(s.cap+1):
            if SymBool(s.eng, s.ln==L): 
                return L
        raise RuntimeError("no length")
    def __getitem__(s, i):
        if isinstance(i, slice): return s._slice(i.start, i.stop)
        if i<0:
            L=s.eng_concretize_len(); i=L+i
        if not SymBool(s.eng, s.lnz()>i): raise IndexError("string index out of range")
        return BStr(s.eng,[s.chars[i]],1)
    def __add__(s,o):
        o=s._co(o)
        if isinstance(s.ln,int): return BStr(s.eng, s.chars[:s.ln]+o.chars, s.ln+o.ln if isinstance(o.ln,int) else z3.simplify(s.ln+o.ln))
        L=s.eng_concretize_len()
        return BStr(s.eng, s.chars[:L]+o.chars, L+o.ln if isinstance(o.ln,int) else z3.simplify(L+o.ln))
    def __radd__(s,o): return BStr.const(s.eng,o)+s
    def _cls(s, pred):
        # all chars satisfy pred and len>0 (python semantics for isX)
        return SymBool(s.eng, z3.And([s.lnz()>0]+[z3.Implies(s.lnz()>k, pred(s.chars[k])) for k in range(s.cap)]))
    def isdigit(s): return s._cls(lambda c: z3.And(c>=48,c<=57))
    def isalpha(s): return s._cls(lambda c: z3.Or(z3.And(c>=65,c<=90), z3.And(c>=97,c<=122)))
    def lower(s): return BStr(s.eng,[z3.If(z3.And(c>=65,c<=90), c+32, c) for c in s.chars], s.ln)
    def upper(s): return BStr(s.eng,[z3.If(z3.And(c>=97,c<=122), c-32, c) for c in s.chars], s.ln)
    def __repr__(s): return f"<BStr cap={s.cap} ln={s.ln}>"
    def concretize(s, model):
        L=model.eval(s.lnz(),model_completion=True).as_long()
        return "".join(chr(model.eval(c,model_completion=True).as_long()) for c in s.chars[:L])

class SX:
    """helpers the instrumented code calls"""
    def __init__(s, eng): s.eng=eng
    def len(s,x): return x.length() if isinstance(x,BStr) else builtins.len(x)
    def fstr(s,parts):
        if not any(isinstance(p,BStr) for p in parts): return "".join(parts)
        out=BStr.const(s.eng,"")
        for p in parts: out=out+p
        return out
    def fmt(s,v,conv,spec):
        if isinstance(v,BStr):
            assert not spec; return v
        if conv=='r': v=repr(v)
        elif conv=='s': v=str(v)
        return format(v, spec or "")
    def contains(s, item, container):
        if isinstance(item,BStr) and isinstance(container,(tuple,list)):
            for c in container:
                if item==c: return True
            return False
        return item in container
    def getitem(s, obj, key):
        import enum
        if isinstance(key,BStr):
            if isinstance(obj, enum.EnumMeta):
                for name,member in obj.__members__.items():
                    if key==name: return member
                raise KeyError("<symbolic>")
            if isinstance(obj, dict):
                for k,v in obj.items():
                    if key==k: return v
                raise KeyError("<symbolic>")
        return obj[key]

class Rewriter(ast.NodeTransformer):
    def visit_JoinedStr(self,node):
        self.generic_visit(node)
        parts=[]
        for v in node.values:
            if isinstance(v,ast.Constant): parts.append(v)
            else:
                conv={-1:None,115:'s',114:'r',97:'a'}[v.conversion]
                spec=v.format_spec if v.format_spec is not None else ast.Constant(None)
                parts.append(ast.Call(ast.Attribute(ast.Name('_sx',ast.Load()),'fmt',ast.Load()),[v.value,ast.Constant(conv),spec],[]))
        return ast.Call(ast.Attribute(ast.Name('_sx',ast.Load()),'fstr',ast.Load()),[ast.List(parts,ast.Load())],[])
    def visit_Call(self,node):
        self.generic_visit(node)
        if isinstance(node.func,ast.Name) and node.func.id in ('len',):
            node.func=ast.Attribute(ast.Name('_sx',ast.Load()),node.func.id,ast.Load())
        return node
    def visit_Compare(self,node):
        self.generic_visit(node)
        if len(node.ops)==1 and isinstance(node.ops[0],(ast.In,ast.NotIn)):
            c=ast.Call(ast.Attribute(ast.Name('_sx',ast.Load()),'contains',ast.Load()),[node.left,node.comparators[0]],[])
            return c if isinstance(node.ops[0],ast.In) else ast.UnaryOp(ast.Not(),c)
        return node
    def visit_Subscript(self,node):
        self.generic_visit(node)
        if isinstance(node.ctx,ast.Load) and not isinstance(node.slice,ast.Slice):
            return ast.Call(ast.Attribute(ast.Name('_sx',ast.Load()),'getitem',ast.Load()),[node.value,node.slice],[])
        return node

def instrument(fn, eng):
    src=textwrap.dedent(inspect.getsource(fn))
    tree=Rewriter().visit(ast.parse(src)); ast.fix_missing_locations(tree)
    ns=dict(fn.__globals__); ns['_sx']=SX(eng)
    exec(compile(tree, inspect.getsourcefile(fn), 'exec'), ns)
    return ns[fn.__name__]

# ---- extensions: ljust/rjust/strip/str(int) ----
def _ljust(s, n, fill=" "):
    f=_iv(ord(fill))
    if s.cap>=n and not isinstance(s.ln,int):
        cap=s.cap
    else: cap=max(s.cap,n)
    ln=s.lnz()
    chars=[z3.If(ln>k, s.at(k), f) if k<s.cap else f for k in range(cap)]
    newln = max(s.ln,n) if isinstance(s.ln,int) else z3.simplify(z3.If(ln>=n, ln, n))
    if isinstance(s.ln,int): chars=chars[:newln]
    elif s.cap<=n: newln=n; chars=chars[:n]
    return BStr(s.eng,[z3.simplify(c) for c in chars],newln)
def _rjust(s, n, fill=" "):
    f=_iv(ord(fill))
    if isinstance(s.ln,int):
        pad=max(0,n-s.ln); return BStr(s.eng,[f]*pad+s.chars[:s.ln], pad+s.ln)
    ln=s.ln; cap=max(s.cap,n)
    chars=[]
    for k in range(cap):
        # result[k] = fill if k < pad else s[k-pad], pad = max(0,n-ln)
        e=s.at(k) if k<s.cap else f   # case pad==0 (ln>=n)
        for L in range(min(n,s.cap+1)):   # ln==L<n: pad=n-L
            pad=n-L
            e=z3.If(ln==L, f if k<pad else (s.chars[k-pad] if k-pad<s.cap else f), e)
        chars.append(z3.simplify(e))
    newln = n if s.cap<=n else z3.simplify(z3.If(ln>=n, ln, n))
    if s.cap<=n: chars=chars[:n]
    return BStr(s.eng,chars,newln)
def _isws(c): return z3.Or(c==32, z3.And(c>=9,c<=13), z3.And(c>=28,c<=31))
def _strip(s):
    # fork-free: lead = number of leading ws chars within ln; trail similarly
    ln=s.lnz(); cap=s.cap
    # lead
    lead=_iv(0); allws=z3.BoolVal(True)
    for k in range(cap):
        allws=z3.And(allws, ln>k, _isws(s.chars[k]))
        lead=z3.If(allws, k+1, lead)
    lead=z3.simplify(lead)
    # trail: count trailing ws given ln (cascade over ln)
    trail=_iv(0)
    for L in range(1,cap+1):
        t=_iv(0); allw=z3.BoolVal(True)
        for k in range(L-1,-1,-1):
            allw=z3.And(allw,_isws(s.chars[k])); t=z3.If(allw, L-k, t)
        trail=z3.If(ln==L, t, trail)
    trail=z3.simplify(trail)
    newln=z3.simplify(z3.If(lead>=ln, 0, ln-lead-trail))
    chars=[]
    for k in range(cap):
        e=_iv(32)
        for d in range(cap-k):
            e=z3.If(lead==d, s.chars[k+d], e)
        chars.append(z3.simplify(e))
    return BStr(s.eng,chars,newln)
BStr.ljust=lambda s,n,fill=" ": _ljust(s,n,fill)
BStr.rjust=lambda s,n,fill=" ": _rjust(s,n,fill)
BStr.strip=lambda s: _strip(s)
def _sint_str(eng, e, maxdigits):
    # decimal rendering of 0<=e<10^maxdigits as BStr
    digs=[ (e/(10**(maxdigits-1-k)))%10 for k in range(maxdigits)]
    nd=_iv(1)
    for k in range(maxdigits-1,0,-1): nd=z3.If(e>=10**k, z3.If(nd<k+1,k+1,nd), nd)
    nd=z3.simplify(nd)
    chars=[]
    for k in range(maxdigits):
        c=_iv(48)
        for D in range(1,maxdigits+1):
            if k<D: c=z3.If(nd==D, 48+digs[maxdigits-D+k], c)
        chars.append(c)
    return BStr(eng,chars,nd)
_old_fmt=SX.fmt
def _sx_str(s,x,maxdigits=5):
    if isinstance(x,SInt): return _sint_str(s.eng,x.e,maxdigits)
    return str(x)
SX.str=_sx_str
_oldcall=Rewriter.visit_Call
def _vc(self,node):
    self.generic_visit(node)
    if isinstance(node.func,ast.Name) and node.func.id in ('len','str'):
        node.func=ast.Attribute(ast.Name('_sx',ast.Load()),node.func.id,ast.Load())
    return node
Rewriter.visit_Call=_vc
_oldgi=SX.getitem
def _gi(s,obj,key):
    if isinstance(obj,BStr): return obj[key]
    return _oldgi(s,obj,key)
SX.getitem=_gi
