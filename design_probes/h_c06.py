import logging, string
logging.disable(logging.CRITICAL)
from typing import List, Tuple
import pulp
import rnapolis.common as C
from rnapolis.common import *
from rnapolis.tertiary import *
from rnapolis.parser import read_3d_structure

def _start(self): self.solutionTime=0.0; self.solutionCpuTime=0.0
pulp.LpProblem.startClock=_start; pulp.LpProblem.stopClock=_start
class _NoHighs:
    def available(self): return False
pulp.HiGHS_CMD=_NoHighs
pulp.LpSolverDefault=None   # forces FCFS branch (needs the fcfs() defect fixed) -> for probe use patched fcfs
# probe only: make convert_to_dot_bracket use fcfs property directly
C.BpSeq.convert_to_dot_bracket = lambda self, solver: self.fcfs

with open("/repo/tests/1A1T_1_B.cif") as f:
    S3 = read_3d_structure(f)
NTS = [r for r in S3.residues if r.is_nucleotide][:4]
STRUCT = Structure3D(NTS)
ABSENT = Residue(None, ResidueAuth("Z", 999, None, "G"))
RES = [Residue(r.label, r.auth) for r in NTS] + [ABSENT]
LWS = [LeontisWesthof.cWW, LeontisWesthof.tHS]
OPEN="([{<"+string.ascii_uppercase; CLOSE=")]}>"+string.ascii_lowercase
def decode(s):
    st={c:[] for c in OPEN}; m=dict(zip(CLOSE,OPEN)); pr=set()
    for i,c in enumerate(s):
        if c in OPEN: st[c].append(i)
        elif c in CLOSE:
            if not st[m[c]]: return None
            pr.add((st[m[c]].pop()+1,i+1))
        elif c!='.': return None
    if any(st.values()): return None
    return pr

def mapping_ok(entries: List[Tuple[int,int,int]]) -> bool:
    """
    pre: len(entries) == 2
    pre: all(0 <= a < 5 and 0 <= b < 5 and a != b and 0 <= l < 2 for a,b,l in entries)
    post: __return__
    """
    bps=[BasePair(RES[a],RES[b],LWS[l],None) for a,b,l in entries]
    m=Mapping2D3D(STRUCT,bps,[],False)
    b=m.bpseq
    n=len(NTS)
    if [e.index_ for e in b.entries]!=list(range(1,n+1)): return False
    if [e.sequence for e in b.entries]!=[r.one_letter_name for r in NTS]: return False
    for e in b.entries:
        if e.pair!=0 and b.entries[e.pair-1].pair!=e.index_: return False
    rows=m.extended_dot_bracket.split("\n")
    for row in rows[2:]:
        lw,s=row.split(" ")
        if len(s)!=n or decode(s) is None: return False
    return True
