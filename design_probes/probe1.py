import logging
logging.disable(logging.CRITICAL)
from rnapolis.common import *
import pulp, numpy as np
b = BpSeq.from_dotbracket(DotBracket.from_string("ACGUACGU", "([..)].."))
try:
    print("none solver:", b.convert_to_dot_bracket(None))
except Exception as e:
    print("none solver EXC:", type(e), e)
# faulting solver
class Bad(pulp.LpSolver):
    name="bad"
    def available(self): return True
    def actualSolve(self, lp): raise pulp.PulpSolverError("boom")
try:
    print("bad solver:", BpSeq.from_dotbracket(DotBracket.from_string("ACGUACGU", "([..)]..")).convert_to_dot_bracket(Bad()))
except Exception as e:
    print("bad solver EXC:", type(e), e)
# without_isolated mutation
b = BpSeq.from_dotbracket(DotBracket.from_string("ACGUACGUAC", "((..)).(.)"))
s0=str(b)
w = b.without_isolated()
print("mutated receiver:", str(b)!=s0, b.pairs, w.pairs)
# torsion
from rnapolis.tertiary import calculate_torsion_angle_coords as t1
from rnapolis.tertiary_v2 import calculate_torsion_angle as t2
p=[np.array(x,dtype=float) for x in [(1,0,0),(0,0,0),(0,0,1),(0,1,1)]]
print("torsions", t1(*p), t2(*p))
import rnapolis.adapter as ad
print([x for x in dir(LeontisWesthof) if x not in LeontisWesthof.__members__])
try:
    print(ad.match_dssr_lw("__doc__"))
except Exception as e: print("dssr EXC", type(e), e)
