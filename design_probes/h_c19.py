import logging
logging.disable(logging.CRITICAL)
from rnapolis.adapter import unify_classification
from rnapolis.common import LeontisWesthof, StackingTopology, BR, BPh

STACK = {"s33": StackingTopology.downward, "s55": StackingTopology.upward, "s35": StackingTopology.outward, "s53": StackingTopology.inward}
def core_ref(core: str):
    if len(core) == 3 and core[0] in "ctCT" and core[1] in "WHSwhs" and core[2] in "WHSwhs":
        return ("base-pair", LeontisWesthof[core[0].lower() + core[1].upper() + core[2].upper()])
    if core in STACK:
        return ("stacking", STACK[core])
    if len(core) == 4 and core[0] in "0123456789" and core[1:] == "BPh":
        return ("base-phosphate", BPh["_" + core[0]])
    if len(core) == 3 and core[0] in "0123456789" and core[1:] == "BR":
        return ("base-ribose", BR["_" + core[0]])
    return None

def ref(label: str):
    cands = [label]
    if label.startswith("n"): cands.append(label[1:])
    more = []
    for c in cands:
        if c.endswith("a") and len(c) >= 4: more.append(c[:-1])
    # stated set: exact demands
    for c in cands + more:
        r = core_ref(c)
        if r is not None: return r
    return ("other", None)

def check(label: str) -> bool:
    """
    pre: len(label) <= 4
    pre: label.isascii()
    post: __return__
    """
    return unify_classification(label) == ref(label)
