import logging, itertools
logging.disable(logging.CRITICAL)
from typing import List
import pulp
import rnapolis.common as C
from rnapolis.common import BpSeq, Entry

def valid(p: List[int]) -> bool:
    n = len(p)
    for i in range(n):
        j = p[i]
        if j < 0 or j > n: return False
        if j == i + 1: return False
        if j != 0 and p[j-1] != i + 1: return False
    return True

class Sched:
    choices: List[int] = []
    pos = 0
    used = 0
def _det(x):
    return isinstance(x, int) or (isinstance(x, tuple) and all(_det(y) for y in x)) or (isinstance(x, frozenset) and all(_det(y) for y in x))
class NDSet:
    """stand-in for set: iteration order of hash-randomised elements is an arbitrary permutation"""
    def __init__(self, it=()):
        self.items=[]
        for x in it: self.add(x)
    def add(self, x):
        if x not in self.items: self.items.append(x)
    def update(self, it):
        for x in it: self.add(x)
    def discard(self, x):
        if x in self.items: self.items.remove(x)
    def __contains__(self, x): return x in self.items
    def __len__(self): return len(self.items)
    def __bool__(self): return bool(self.items)
    def __iter__(self):
        k=len(self.items)
        if k<2 or all(_det(x) for x in self.items):
            return iter(sorted(self.items) if all(isinstance(x,int) for x in self.items) else list(self.items))
        perms=list(itertools.permutations(range(k)))
        if Sched.pos < len(Sched.choices):
            c=Sched.choices[Sched.pos]; Sched.pos+=1; Sched.used+=1
        else: c=0
        return iter([self.items[i] for i in perms[c % len(perms)]])
    def intersection(self, o): return NDSet([x for x in self.items if x in o])

def outputs(p, n):
    b = BpSeq([Entry(i + 1, "ACGU"[i % 4], p[i]) for i in range(n)])
    return [str(b), b.fcfs.structure, [d.structure for d in b.all_dot_brackets], [str(e) for grp in b.elements for e in grp] if False else None]

def deterministic(p: List[int], choices: List[int]) -> bool:
    """
    pre: len(p) == 6 and len(choices) == 2
    pre: valid(p)
    pre: all(0 <= c < 24 for c in choices)
    post: __return__
    """
    n=len(p)
    C.set = NDSet
    try:
        Sched.choices=[]; Sched.pos=0
        ref = outputs(p, n)
        Sched.choices=choices; Sched.pos=0
        got = outputs(p, n)
    finally:
        del C.set
    return ref == got
