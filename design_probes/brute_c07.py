import logging, itertools, sys
logging.disable(logging.CRITICAL)
from rnapolis.common import *

def involutions(n):
    def rec(i, p):
        if i == n:
            yield list(p); return
        if p[i] != -1:
            yield from rec(i+1, p); return
        p[i] = 0
        yield from rec(i+1, p)
        for j in range(i+1, n):
            if p[j] == -1:
                p[i] = j+1; p[j] = i+1
                yield from rec(i+1, p)
                p[j] = -1
        p[i] = -1
    yield from rec(0, [-1]*n)

def check(p):
    n=len(p)
    seq="ACGU"*3
    b = BpSeq([Entry(i+1, seq[i], p[i]) for i in range(n)])
    stems, ss, hp, loops = b.elements
    db = b.dot_bracket.structure
    errs=[]
    pairs = {(i+1,p[i]) for i in range(n) if p[i]>i+1}
    # stems partition pairs into maximal runs
    covered=set()
    for s in stems:
        L = s.strand5p.last - s.strand5p.first + 1
        if s.strand3p.last - s.strand3p.first + 1 != L: errs.append("stem strands differ")
        for k in range(L):
            pr=(s.strand5p.first+k, s.strand3p.last-k)
            if pr not in pairs: errs.append(f"stem pair {pr} not a pair")
            if pr in covered: errs.append("dup pair")
            covered.add(pr)
        # maximal
        a,bb = s.strand5p.first-1, s.strand3p.last+1
        if (a,bb) in pairs: errs.append("stem not maximal outward")
        a,bb = s.strand5p.last+1, s.strand3p.first-1
        if a<bb and (a,bb) in pairs: errs.append("stem not maximal inward")
        if s.strand5p.sequence != seq[s.strand5p.first-1:s.strand5p.last]: errs.append("stem seq")
        if s.strand5p.structure != db[s.strand5p.first-1:s.strand5p.last]: errs.append("stem str")
        if s.strand3p.sequence != seq[s.strand3p.first-1:s.strand3p.last]: errs.append("stem seq3")
        if s.strand3p.structure != db[s.strand3p.first-1:s.strand3p.last]: errs.append("stem str3")
    if covered != pairs: errs.append("stems don't cover pairs")
    # hairpins exactly pairs enclosing only unpaired
    exp_h = {(i,j) for (i,j) in pairs if all(p[k-1]==0 for k in range(i+1,j))}
    got_h = {(h.strand.first,h.strand.last) for h in hp}
    if exp_h != got_h: errs.append(f"hairpins {got_h} != {exp_h}")
    # loops
    interior = {}
    def add(kind, st, lo, hi):
        for k in range(lo,hi+1):
            if p[k-1]!=0: errs.append(f"{kind} interior paired {k}")
            interior.setdefault(k,[]).append(kind)
    for l in loops:
        m=len(l.strands)
        if m<2: errs.append("loop <2 strands")
        for a in range(m):
            s=l.strands[a]; t=l.strands[(a+1)%m]
            if p[s.last-1]!=t.first: errs.append(f"loop not closed {l}")
            add("loop", s, s.first+1, s.last-1)
            if s.sequence != seq[s.first-1:s.last] or s.structure != db[s.first-1:s.last]: errs.append("loop text")
    for h in hp:
        add("hairpin", h.strand, h.strand.first+1, h.strand.last-1)
    for s in ss:
        lo, hi = s.strand.first, s.strand.last
        if s.strand.sequence != seq[lo-1:hi] or s.strand.structure != db[lo-1:hi]: errs.append("ss text")
        if s.is5p: add("ss5", s.strand, lo, hi-1)
        elif s.is3p: add("ss3", s.strand, lo+1, hi)
        else: add("ss", s.strand, lo+1, hi-1)
    for k in range(1,n+1):
        if p[k-1]==0:
            c = interior.get(k,[])
            if len(c)!=1: errs.append(f"unpaired {k} in {c}")
    return errs

if __name__=="__main__":
  N=int(sys.argv[1])
  from collections import Counter
  cnt=Counter(); ex={}
  tot=0
  for p in involutions(N):
      tot+=1
      try:
          e=check(p)
      except Exception as x:
          e=[f"EXC {type(x).__name__}"]
      for m in set(x.split(' ')[0]+' '+x.split(' ')[1] if ' ' in x else x for x in e):
          cnt[m]+=1; ex.setdefault(m,(p,e))
  print(tot, cnt)
  for m,(p,e) in ex.items(): print(m, p, e[:3])
