import logging
logging.disable(logging.CRITICAL)
from rnapolis.common import *
b = BpSeq.from_dotbracket(DotBracket.from_string("ACGUACGUAC", "([{.)].}.."))
print([d.structure for d in b.all_dot_brackets])
