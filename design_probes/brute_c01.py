import logging, itertools, sys
logging.disable(logging.CRITICAL)
from rnapolis.common import *
from brute_c07 import involutions
import string
OPEN="([{<"+string.ascii_uppercase; CLOSE=")]}>"+string.ascii_lowercase
def decode(s):
    st={c:[] for c in OPEN}; m=dict(zip(CLOSE,OPEN)); pr=set()
    for i,c in enumerate(s):
        if c in OPEN: st[c].append(i)
        elif c in CLOSE:
            if not st[m[c]]: return None
            pr.add((st[m[c]].pop()+1,i+1))
        elif c!='.': return None
    if any(st.values()): return None
    return pr
def stems_of(pairs):
    ps=sorted(pairs); out=[]
    for (i,j) in ps:
        if out and out[-1][-1]==(i-1,j+1): out[-1].append((i,j))
        else: out.append([(i,j)])
    return out
def cross(a,b): return a[0]<b[0]<a[1]<b[1] or b[0]<a[0]<b[1]<a[1]
def levels(s, stems):
    return [OPEN.index(s[st[0][0]-1]) for st in stems]
def obj(lv, stems): return sum((len(st) if l==0 else -l*len(st)) for l,st in zip(lv,stems))
N=int(sys.argv[1]); bad=0; tot=0
for p in involutions(N):
    tot+=1
    pairs={(i+1,p[i]) for i in range(N) if p[i]>i+1}
    b=BpSeq([Entry(i+1,"ACGU"[i%4],p[i]) for i in range(N)])
    outs={"opt":b.dot_bracket,"fcfs":b.fcfs}
    alls=b.all_dot_brackets
    for k,d in enumerate(alls): outs[f"all{k}"]=d
    stems=stems_of(pairs)
    for name,d in outs.items():
        dec=decode(d.structure)
        if d.sequence!=b.sequence or len(d.structure)!=N or dec!=pairs:
            bad+=1; print("C01", p, name, d.structure)
        else:
            # crossing stems distinct levels
            lv=levels(d.structure,stems)
            for a,c in itertools.combinations(range(len(stems)),2):
                if cross(stems[a][0],stems[c][0]) and lv[a]==lv[c]: bad+=1; print("C01 cross", p, name)
    # C02 optimal
    if stems:
        lv=levels(outs["opt"].structure,stems)
        best=None
        R=len(stems)
        for cand in itertools.product(range(min(R,4)),repeat=R):
            if all(not(cross(stems[a][0],stems[c][0]) and cand[a]==cand[c]) for a,c in itertools.combinations(range(R),2)):
                o=obj(cand,stems); best=o if best is None or o>best else best
        if obj(lv,stems)!=best: bad+=1; print("C02", p, outs["opt"].structure, obj(lv,stems), best)
        # C16 grundy set
        exp=set()
        for cand in itertools.product(range(R),repeat=R):
            ok=True
            for a in range(R):
                nb=[cand[c] for c in range(R) if c!=a and cross(stems[a][0],stems[c][0])]
                if cand[a] in nb or any(l not in nb for l in range(cand[a])): ok=False;break
            if ok: exp.add(cand)
        got=[tuple(levels(d.structure,stems)) for d in alls]
        if len(got)!=len(set(got)) or set(got)!=exp: bad+=1; print("C16", p, sorted(got), sorted(exp))
    else:
        if [d.structure for d in alls]!=["."*N]: bad+=1; print("C16 empty",p)
print(tot,"bad",bad)
