import logging
logging.disable(logging.CRITICAL)
from typing import List
from rnapolis.common import BpSeq, Entry, DotBracket

def valid(p: List[int]) -> bool:
    n = len(p)
    for i in range(n):
        j = p[i]
        if j < 0 or j > n: return False
        if j == i + 1: return False
        if j != 0 and p[j-1] != i + 1: return False
    return True

def fcfs_roundtrip(p: List[int], seq: List[str]) -> bool:
    """
    pre: len(p) == 6 and len(seq) == 6
    pre: all(len(c) == 1 for c in seq)
    pre: valid(p)
    post: __return__
    """
    b = BpSeq([Entry(i + 1, seq[i], p[i]) for i in range(len(p))])
    db = b.fcfs
    back = BpSeq.from_dotbracket(db)
    return [e.pair for e in back.entries] == list(p) and db.sequence == "".join(seq) and [e.sequence for e in back.entries] == list(seq)
