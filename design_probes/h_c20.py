import logging
logging.disable(logging.CRITICAL)
from typing import List, Tuple
import rnapolis.transformer as T
from mmcif.io.PdbxReader import DataCategory, DataContainer

class FakeAdapter:
    """environment stub for mmcif.io.IoAdapterPy: files are (de)serialised data containers"""
    store = {}
    written = None
    def readFile(self, path):
        return FakeAdapter.store["in"]()
    def writeFile(self, path, data):
        FakeAdapter.written = data
class FakeTmp:
    def __init__(self,*a,**k): self.name="tmp"
    def __enter__(self): return self
    def __exit__(self,*a): return False
    def write(self,s): pass
    def seek(self,n): pass
    def read(self): return "<<written>>"
T.IoAdapterPy = FakeAdapter
class _tf: NamedTemporaryFile = FakeTmp
T.tempfile = _tf

ATTRS = ["id", "label_asym_id", "auth_asym_id", "x"]
def copy_frame(rows: List[Tuple[str,str,str,str]], src: int, dst: int) -> bool:
    """
    pre: 1 <= len(rows) <= 2
    pre: 0 <= src < 5 and 0 <= dst < 5
    post: __return__
    """
    names = ATTRS + ["new_item"]
    def mk():
        c = DataContainer("d")
        c.append(DataCategory("atom_site", list(ATTRS), [list(r) for r in rows]))
        c.append(DataCategory("other", ["a", "b"], [["1", "2"]]))
        return [c]
    FakeAdapter.store["in"] = mk; FakeAdapter.written = None
    out = T.copy_from_to("content", "atom_site", names[src], names[dst])
    if src == 4:
        return out == "content" and FakeAdapter.written is None
    data = FakeAdapter.written
    if out != "<<written>>" or data is None: return False
    cat = data[0].getObj("atom_site"); oth = data[0].getObj("other")
    if oth.getAttributeList() != ["a","b"] or oth.getRowList() != [["1","2"]]: return False
    attrs = cat.getAttributeList()
    if attrs != (ATTRS if dst < 4 else ATTRS + ["new_item"]): return False
    got = cat.getRowList()
    if len(got) != len(rows): return False
    for r, g in zip(rows, got):
        exp = list(r) + ([r[src]] if dst == 4 else [])
        if dst < 4: exp[dst] = r[src]
        if g != exp: return False
    return True
