import logging, sys, io, tempfile, os
logging.disable(logging.CRITICAL)
from rnapolis.common import *
from rnapolis.tertiary import *
from rnapolis.parser import read_3d_structure
# C06 triple
with open("/repo/tests/1A1T_1_B.cif") as f:
    s3 = read_3d_structure(f)
nts=[r for r in s3.residues if r.is_nucleotide]
print(len(nts), [r.full_name for r in nts[:4]])
def R(r): return Residue(r.label, r.auth)
bps=[BasePair(R(nts[0]),R(nts[1]),LeontisWesthof.tHS,None),BasePair(R(nts[0]),R(nts[2]),LeontisWesthof.tHS,None),BasePair(R(nts[1]),R(nts[2]),LeontisWesthof.tHS,None)]
m=Mapping2D3D(s3,bps,[],False)
try:
    print(m.extended_dot_bracket)
except Exception as e: print("EXC", type(e).__name__, e)
# C20 CLI
import rnapolis.transformer as T
cif=open("/repo/tests/1A1T_1_B.cif").read()
d=tempfile.mkdtemp(); out=os.path.join(d,"o.cif")
sys.argv=["transformer","/repo/tests/1A1T_1_B.cif",out,"--category","atom_site","--copy-from","label_asym_id","--copy-to","auth_asym_id"]
T.main(); print("CLI copy wrote:", repr(open(out).read()[:80]), " lib returns len", len(T.copy_from_to(cif,"atom_site","label_asym_id","auth_asym_id")))
sys.argv=["transformer","/repo/tests/1A1T_1_B.cif",out,"--category","atom_site","--replace","auth_asym_id","--values","XYZ"]
try: T.main(); print("CLI replace ok")
except Exception as e: print("CLI replace EXC", type(e).__name__, e)
