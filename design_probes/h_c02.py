import logging, itertools, string
logging.disable(logging.CRITICAL)
from typing import List
import pulp, z3
from crosshair import realize
from crosshair.tracers import NoTracing
from rnapolis.common import BpSeq, Entry, DotBracket

def valid(p: List[int]) -> bool:
    n = len(p)
    for i in range(n):
        j = p[i]
        if j < 0 or j > n: return False
        if j == i + 1: return False
        if j != 0 and p[j-1] != i + 1: return False
    return True

def _start(self): self.solutionTime=0.0; self.solutionCpuTime=0.0
def _stop(self): self.solutionTime=0.0; self.solutionCpuTime=0.0
pulp.LpProblem.startClock=_start; pulp.LpProblem.stopClock=_stop
OPEN="([{<"+string.ascii_uppercase
STATS={"lp":0,"sols":0,"z3":0}

def extract(lp):
    vs=[(v.name, realize(v.lowBound), realize(v.upBound)) for v in lp.variables()]
    def aff(e): return ([(v.name, int(realize(c))) for v,c in e.items()], int(realize(e.constant)))
    cons=[(c.sense, aff(c)) for c in lp.constraints.values()]
    return vs, cons, aff(lp.objective), lp.sense

def solve_all(data, k):
    ctx=z3.Context()
    vsd,consd,objd,sense=data
    vs={n:z3.Int(n,ctx) for n,_,_ in vsd}; cons=[]
    for n,lo,up in vsd:
        if lo is not None: cons.append(vs[n]>=int(lo))
        if up is not None: cons.append(vs[n]<=int(up))
    def aff(a): return z3.Sum([c*vs[n] for n,c in a[0]])+a[1] if a[0] else z3.IntVal(a[1],ctx)
    for s_,a in consd:
        cons.append(aff(a)==0 if s_==0 else (aff(a)<=0 if s_==-1 else aff(a)>=0))
    obj=aff(objd)
    o=z3.Optimize(ctx=ctx); o.add(cons); h=o.maximize(obj) if sense==pulp.LpMaximize else o.minimize(obj)
    assert o.check()==z3.sat
    opt=o.upper(h) if sense==pulp.LpMaximize else o.lower(h)
    s=z3.Solver(ctx=ctx); s.add(cons); s.add(obj==opt)
    sols=[]
    while len(sols)<=k and s.check()==z3.sat:
        m=s.model(); sols.append({n:m.eval(x,model_completion=True).as_long() for n,x in vs.items()})
        s.add(z3.Or([x!=sols[-1][n] for n,x in vs.items()]+[z3.BoolVal(False,ctx)]))
    return sols

class AllOptimal(pulp.LpSolver):
    name="z3-all-optimal"
    def __init__(self,k=0): super().__init__(msg=False); self.k=k; self.count=None; self.called=False
    def available(self): return True
    def actualSolve(self, lp):
        data=extract(lp); self.called=True
        with NoTracing():
            sols=solve_all(data,self.k)
        if len(sols)<=self.k: self.count=len(sols); sol=sols[0]
        else: sol=sols[self.k]
        for v in lp.variables(): v.varValue=sol[v.name]
        lp.assignStatus(pulp.LpStatusOptimal)
        return pulp.LpStatusOptimal

def stems_of(pairs):
    out=[]
    for (i,j) in sorted(pairs):
        if out and out[-1][-1]==(i-1,j+1): out[-1].append((i,j))
        else: out.append([(i,j)])
    return out
def cross(a,b): return a[0]<b[0]<a[1]<b[1] or b[0]<a[0]<b[1]<a[1]

def oracle(pc, s):
    n=len(pc)
    pairs={(i+1,pc[i]) for i in range(n) if pc[i]>i+1}
    stems=stems_of(pairs)
    lv=[OPEN.index(s[st[0][0]-1]) for st in stems]
    R=len(stems)
    ctx=z3.Context()
    a=[z3.Int(f"a{i}",ctx) for i in range(R)]
    sol=z3.Solver(ctx=ctx)
    for i in range(R): sol.add(a[i]>=0,a[i]<30)
    for i,j in itertools.combinations(range(R),2):
        if cross(stems[i][0],stems[j][0]):
            sol.add(a[i]!=a[j])
            if lv[i]==lv[j]: return False
    if R==0: return True
    objz=z3.Sum([z3.If(a[i]==0,len(stems[i]),-a[i]*len(stems[i])) for i in range(R)])
    mine=sum((len(st) if l==0 else -l*len(st)) for l,st in zip(lv,stems))
    sol.add(objz>mine)
    r=sol.check()
    if r==z3.unknown: raise RuntimeError('oracle unknown')
    return r==z3.unsat

def optimal(p: List[int]) -> bool:
    """
    pre: len(p) == 6
    pre: valid(p)
    post: __return__
    """
    n=len(p)
    k=0
    while True:
        b = BpSeq([Entry(i + 1, "A", p[i]) for i in range(n)])
        solver=AllOptimal(k)
        db=b.convert_to_dot_bracket(solver)
        pc=[realize(x) for x in p]; s=realize(db.structure)
        with NoTracing():
            ok=oracle(pc,s)
        if not ok: return False
        if not solver.called or solver.count is not None: break
        k+=1
    return True
