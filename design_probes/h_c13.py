import logging, string
logging.disable(logging.CRITICAL)
from typing import List
import pulp
import rnapolis.common as C
from rnapolis.common import BpSeq, Entry

def valid(p: List[int]) -> bool:
    n = len(p)
    for i in range(n):
        j = p[i]
        if j < 0 or j > n: return False
        if j == i + 1: return False
        if j != 0 and p[j-1] != i + 1: return False
    return True
def _start(self): self.solutionTime=0.0; self.solutionCpuTime=0.0
pulp.LpProblem.startClock=_start; pulp.LpProblem.stopClock=_start

class Faulty(pulp.LpSolver):
    name="faulty"
    def __init__(self, mode): super().__init__(msg=False); self.mode=mode
    def available(self): return True
    def actualSolve(self, lp):
        if self.mode == 0: raise pulp.PulpSolverError("injected")
        st = [pulp.LpStatusNotSolved, pulp.LpStatusInfeasible, pulp.LpStatusUnbounded, pulp.LpStatusUndefined][self.mode-1]
        lp.assignStatus(st)
        return st

OPEN="([{<"+string.ascii_uppercase; CLOSE=")]}>"+string.ascii_lowercase
def decode(s):
    st={c:[] for c in OPEN}; m=dict(zip(CLOSE,OPEN)); pr=set()
    for i,c in enumerate(s):
        if c in OPEN: st[c].append(i)
        elif c in CLOSE:
            if not st[m[c]]: return None
            pr.add((st[m[c]].pop()+1,i+1))
        elif c!='.': return None
    if any(st.values()): return None
    return pr

def faults(p: List[int], mode: int) -> bool:
    """
    pre: len(p) == 5
    pre: valid(p)
    pre: -1 <= mode <= 4
    post: __return__
    """
    n=len(p)
    b = BpSeq([Entry(i + 1, "A", p[i]) for i in range(n)])
    solver = None if mode == -1 else Faulty(mode)
    try:
        db = b.convert_to_dot_bracket(solver)
    except Exception:
        return False
    ref = BpSeq([Entry(i + 1, "A", p[i]) for i in range(n)]).fcfs
    pairs = {(i+1,p[i]) for i in range(n) if p[i] > i+1}
    return decode(db.structure) == pairs and db.structure == ref.structure
