import logging, io, tempfile
logging.disable(logging.CRITICAL)
from rnapolis.parser import read_3d_structure
def pdbline(serial,name,alt,resn,ch,num,ic,x,y,z,occ=1.0,b=0.0,el="C"):
    nm = (" "+name).ljust(4) if len(name)<4 else name
    return f"ATOM  {serial:>5} {nm}{alt or ' '}{resn:>3} {ch}{num:>4}{ic or ' '}   {x:8.3f}{y:8.3f}{z:8.3f}{occ:6.2f}{b:6.2f}          {el:>2}  "
lines=["MODEL        1", pdbline(1,"C1'",None,"G","A",1,None,0,0,0), pdbline(2,"N9",None,"G","A",1,None,1.4,0,0),"ENDMDL",
       "MODEL        2", pdbline(1,"C1'",None,"G","A",1,None,5,5,5), pdbline(2,"N9",None,"G","A",1,None,6.4,5,5),"ENDMDL","END"]
for m in (None,1,2):
    f=tempfile.NamedTemporaryFile("wt+",suffix=".pdb"); f.write("\n".join(lines)+"\n"); f.seek(0)
    s=read_3d_structure(f,m)
    print("model",m,[(r.model,r.full_name,[(a.name,a.x) for a in r.atoms]) for r in s.residues])
cif="""data_x
loop_
_atom_site.group_PDB
_atom_site.id
_atom_site.type_symbol
_atom_site.label_atom_id
_atom_site.label_alt_id
_atom_site.label_comp_id
_atom_site.label_asym_id
_atom_site.label_entity_id
_atom_site.label_seq_id
_atom_site.pdbx_PDB_ins_code
_atom_site.Cartn_x
_atom_site.Cartn_y
_atom_site.Cartn_z
_atom_site.occupancy
_atom_site.B_iso_or_equiv
_atom_site.auth_seq_id
_atom_site.auth_comp_id
_atom_site.auth_asym_id
_atom_site.auth_atom_id
_atom_site.pdbx_PDB_model_num
ATOM 1 C "C1'" . G A 1 1 %s 0.0 0.0 0.0 %s 0.0 1 G A "C1'" 1
ATOM 2 N N9 . G A 1 1 %s 1.4 0.0 0.0 %s 0.0 1 G A N9 1
ATOM 3 C "C1'" . G A 1 1 %s 5.0 5.0 5.0 %s 0.0 1 G A "C1'" 2
ATOM 4 N N9 . G A 1 1 %s 6.4 5.0 5.0 %s 0.0 1 G A N9 2
"""
for ic,occ in (("?","1.0"),(".","1.0"),("?","?"),("?",".")):
    f=tempfile.NamedTemporaryFile("wt+",suffix=".cif"); f.write(cif%((ic,occ)*4)); f.seek(0)
    for m in (1,2):
        try:
            s=read_3d_structure(f,m)
            print("cif",ic,occ,"model",m,[(r.model,r.full_name,r.auth.icode,[(a.name,a.x) for a in r.atoms]) for r in s.residues])
        except Exception as e: print("cif",ic,occ,"model",m,"EXC",type(e).__name__,e)
