#!/venv/bin/python
# Replay of a counterexample against the real code, in a plain interpreter.
# exit 1 = the property violation reproduces; exit 0 = it does not.
import sys, os
sys.path.insert(0, os.environ.get("VERIF_REPO_SRC", "/repo/src"))
import logging; logging.disable(logging.CRITICAL)

sys.path.insert(0, '/verif')
import harness.c16 as H
rec = {'p': [3, 8, 1, 6, 7, 4, 5, 2], 'members': 8, 'problems': ["member '(()([)])' is not a stem-uniform notation of the structure"], 'keys': ['BpSeq.all_dot_brackets:member-lossless'], 'stats': {'queries': 0, 'unknown': 0, 'solver_s': 0.0}, 'kind': 'pairing', 'dual_mismatch': False}
ok = H.replay(rec)
print("property holds on this input (not reproduced)" if ok else "REPRODUCED", rec)
sys.exit(0 if ok else 1)
