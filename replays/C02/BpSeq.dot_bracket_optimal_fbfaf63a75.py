#!/venv/bin/python
# Replay of a counterexample against the real code, in a plain interpreter.
# exit 1 = the property violation reproduces; exit 0 = it does not.
import sys, os
sys.path.insert(0, os.environ.get("VERIF_REPO_SRC", "/repo/src"))
import logging; logging.disable(logging.CRITICAL)

sys.path.insert(0, '/verif')
import harness.c02 as H
rec = {'p': [9, 6, 5, 12, 3, 2, 11, 10, 1, 8, 7, 4], 'problems': ["convert_to_dot_bracket(optimal MILP solution #0): '((([))[[)]]]' objective 0 is not optimal; better levels [2, 0, 1, 0] objective 1", "convert_to_dot_bracket(optimal MILP solution #1): '[[[(]]((])))' objective 0 is not optimal; better levels [2, 0, 1, 0] objective 1"], 'keys': ['BpSeq.dot_bracket:optimal'], 'stats': {'queries': 4, 'unknown': 0, 'lps': 1, 'solutions': 4, 'incomplete': 0, 'lemma_a_unsat': 1, 'lemma_b_unsat': 1}, 'kind': 'pairing', 'id': [[6, 4, 8, 2, 7, 1, 5, 3], [1, 2, 1, 2]]}
ok = H.replay(rec)
print("property holds on this input (not reproduced)" if ok else "REPRODUCED", rec)
sys.exit(0 if ok else 1)
