#!/venv/bin/python
# Replay of a counterexample against the real code, in a plain interpreter.
# exit 1 = the property violation reproduces; exit 0 = it does not.
import sys, os
sys.path.insert(0, os.environ.get("VERIF_REPO_SRC", "/repo/src"))
import logging; logging.disable(logging.CRITICAL)

sys.path.insert(0, '/verif')
import harness.c02 as H
rec = {'p': [5, 10, 7, 6, 1, 4, 3, 12, 11, 2, 9, 8], 'problems': ["convert_to_dot_bracket(optimal MILP solution #0): '([[[)]]((]))' objective 0 is not optimal; better levels [2, 1, 0, 0] objective 1", "convert_to_dot_bracket(optimal MILP solution #1): '[(((]))[[)]]' objective 0 is not optimal; better levels [2, 1, 0, 0] objective 1"], 'keys': ['BpSeq.dot_bracket:optimal'], 'stats': {'queries': 2, 'unknown': 0, 'lps': 1, 'solutions': 2, 'incomplete': 0, 'lemma_a_unsat': 1, 'lemma_b_unsat': 1}, 'kind': 'pairing', 'id': [[4, 7, 5, 1, 3, 8, 2, 6], [1, 1, 2, 2]]}
ok = H.replay(rec)
print("property holds on this input (not reproduced)" if ok else "REPRODUCED", rec)
sys.exit(0 if ok else 1)
