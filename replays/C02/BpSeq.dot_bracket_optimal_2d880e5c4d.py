#!/venv/bin/python
# Replay of a counterexample against the real code, in a plain interpreter.
# exit 1 = the property violation reproduces; exit 0 = it does not.
import sys, os
sys.path.insert(0, os.environ.get("VERIF_REPO_SRC", "/repo/src"))
import logging; logging.disable(logging.CRITICAL)

sys.path.insert(0, '/verif')
import harness.c02 as H
rec = {'p': [7, 6, 9, 8, 10, 2, 1, 4, 3, 5], 'problems': ["dot_bracket(default solver): '(({{[))}}]' objective -3 is not optimal; better levels [1, 0, 2] objective -2", "dot_bracket(default solver): '(({{[))}}]' is worse than first-come-first-served '(([[{))]]}'", "convert_to_dot_bracket(optimal MILP solution #0): '(({{[))}}]' objective -3 is not optimal; better levels [1, 0, 2] objective -2", "convert_to_dot_bracket(optimal MILP solution #0): '(({{[))}}]' is worse than first-come-first-served '(([[{))]]}'"], 'keys': ['BpSeq.dot_bracket:optimal', 'BpSeq.dot_bracket:worse-than-fcfs'], 'stats': {'queries': 5, 'unknown': 0, 'lps': 1, 'solutions': 4, 'incomplete': 0, 'lemma_a_unsat': 1, 'lemma_b_unsat': 1}, 'kind': 'pairing', 'id': [[4, 5, 6, 1, 2, 3], [2, 2, 1]]}
ok = H.replay(rec)
print("property holds on this input (not reproduced)" if ok else "REPRODUCED", rec)
sys.exit(0 if ok else 1)
