#!/venv/bin/python
# Replay of a counterexample against the real code, in a plain interpreter.
# exit 1 = the property violation reproduces; exit 0 = it does not.
import sys, os
sys.path.insert(0, os.environ.get("VERIF_REPO_SRC", "/repo/src"))
import logging; logging.disable(logging.CRITICAL)

sys.path.insert(0, '/verif')
import harness.c02 as H
rec = {'p': [9, 8, 7, 11, 10, 12, 3, 2, 1, 5, 4, 6], 'problems': ["dot_bracket(default solver): '((({{[)))}}]' objective -2 is not optimal; better levels [0, 1, 2] objective -1", "dot_bracket(default solver): '((({{[)))}}]' is worse than first-come-first-served '((([[{)))]]}'", "convert_to_dot_bracket(optimal MILP solution #0): '((({{[)))}}]' objective -2 is not optimal; better levels [0, 1, 2] objective -1", "convert_to_dot_bracket(optimal MILP solution #0): '((({{[)))}}]' is worse than first-come-first-served '((([[{)))]]}'"], 'keys': ['BpSeq.dot_bracket:optimal', 'BpSeq.dot_bracket:worse-than-fcfs'], 'stats': {'queries': 3, 'unknown': 0, 'lps': 1, 'solutions': 2, 'incomplete': 0, 'lemma_a_unsat': 1, 'lemma_b_unsat': 1}, 'kind': 'pairing', 'id': [[4, 5, 6, 1, 2, 3], [3, 2, 1]]}
ok = H.replay(rec)
print("property holds on this input (not reproduced)" if ok else "REPRODUCED", rec)
sys.exit(0 if ok else 1)
