#!/venv/bin/python
# Replay of a counterexample against the real code, in a plain interpreter.
# exit 1 = the property violation reproduces; exit 0 = it does not.
import sys, os
sys.path.insert(0, os.environ.get("VERIF_REPO_SRC", "/repo/src"))
import logging; logging.disable(logging.CRITICAL)

sys.path.insert(0, '/verif')
import harness.c02 as H
rec = {'p': [3, 0, 1, 6, 0, 4, 9, 0, 7, 12, 0, 10, 15, 0, 13, 18, 0, 16, 21, 0, 19, 24, 26, 22, 27, 23, 25], 'problems': ["convert_to_dot_bracket(optimal MILP solution #1): '(.)(.)(.)(.)(.)(.)(.)(()[)]' is not a stem-uniform lossless notation"], 'keys': ['BpSeq.dot_bracket:notation'], 'stats': {'queries': 2, 'unknown': 0, 'lps': 1, 'solutions': 2, 'incomplete': 0, 'lemma_a_sat': 1, 'lemma_b_unsat': 1}, 'kind': 'pairing', 'id': [0, 7, [3, 5, 1, 6, 2, 4]]}
ok = H.replay(rec)
print("property holds on this input (not reproduced)" if ok else "REPRODUCED", rec)
sys.exit(0 if ok else 1)
