#!/venv/bin/python
# Replay of a counterexample against the real code, in a plain interpreter.
# exit 1 = the property violation reproduces; exit 0 = it does not.
import sys, os
sys.path.insert(0, os.environ.get("VERIF_REPO_SRC", "/repo/src"))
import logging; logging.disable(logging.CRITICAL)

sys.path.insert(0, '/verif')
import harness.c02 as H
rec = {'p': [9, 12, 11, 8, 7, 10, 5, 4, 1, 6, 3, 2], 'problems': ["convert_to_dot_bracket(optimal MILP solution #0): '([[(([)))]]]' objective 0 is not optimal; better levels [1, 0, 0, 2] objective 1", "convert_to_dot_bracket(optimal MILP solution #3): '[(([[(]]])))' objective 0 is not optimal; better levels [1, 0, 0, 2] objective 1"], 'keys': ['BpSeq.dot_bracket:optimal'], 'stats': {'queries': 4, 'unknown': 0, 'lps': 1, 'solutions': 4, 'incomplete': 0, 'lemma_a_unsat': 1, 'lemma_b_unsat': 1}, 'kind': 'pairing', 'id': [[6, 8, 5, 7, 3, 1, 4, 2], [1, 2, 2, 1]]}
ok = H.replay(rec)
print("property holds on this input (not reproduced)" if ok else "REPRODUCED", rec)
sys.exit(0 if ok else 1)
