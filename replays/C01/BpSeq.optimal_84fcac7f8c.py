#!/venv/bin/python
# Replay of a counterexample against the real code, in a plain interpreter.
# exit 1 = the property violation reproduces; exit 0 = it does not.
import sys, os
sys.path.insert(0, os.environ.get("VERIF_REPO_SRC", "/repo/src"))
import logging; logging.disable(logging.CRITICAL)

sys.path.insert(0, '/verif')
import harness.c01 as H
rec = {'p': [3, 0, 1, 6, 0, 4, 9, 0, 7, 12, 0, 10, 15, 0, 13, 18, 0, 16, 21, 0, 19, 24, 0, 22, 27, 0, 25, 30, 0, 28, 33, 34, 31, 32], 'outs': 6, 'problems': ['optimal/default-solver: decodes to [(1, 3), (4, 6), (7, 9), (10, 12), (13, 15), (16, 18), (19, 21), (22, 24), (25, 27), (28, 30), (31, 34), (32, 33)] instead of [(1, 3), (4, 6), (7, 9), (10, 12), (13, 15), (16, 18), (19, 21), (22, 24), (25, 27), (28, 30), (31, 33), (32, 34)]', 'optimal/z3-solution-0: decodes to [(1, 3), (4, 6), (7, 9), (10, 12), (13, 15), (16, 18), (19, 21), (22, 24), (25, 27), (28, 30), (31, 34), (32, 33)] instead of [(1, 3), (4, 6), (7, 9), (10, 12), (13, 15), (16, 18), (19, 21), (22, 24), (25, 27), (28, 30), (31, 33), (32, 34)]', 'optimal/z3-solution-1: decodes to [(1, 3), (4, 6), (7, 9), (10, 12), (13, 15), (16, 18), (19, 21), (22, 24), (25, 27), (28, 30), (31, 34), (32, 33)] instead of [(1, 3), (4, 6), (7, 9), (10, 12), (13, 15), (16, 18), (19, 21), (22, 24), (25, 27), (28, 30), (31, 33), (32, 34)]'], 'keys': ['BpSeq.optimal'], 'dual_mismatch': False, 'kind': 'fwd', 'id': [0, 10, [3, 4, 1, 2]]}
ok = H.replay(rec)
print("property holds on this input (not reproduced)" if ok else "REPRODUCED", rec)
sys.exit(0 if ok else 1)
