#!/venv/bin/python
# Replay of a counterexample against the real code, in a plain interpreter.
# exit 1 = the property violation reproduces; exit 0 = it does not.
import sys, os
sys.path.insert(0, os.environ.get("VERIF_REPO_SRC", "/repo/src"))
import logging; logging.disable(logging.CRITICAL)

sys.path.insert(0, '/verif')
import harness.c01 as H
rec = {'p': [5, 7, 0, 6, 1, 4, 2], 'outs': 5, 'problems': ['all[0]: decodes to [(1, 6), (2, 7), (4, 5)] instead of [(1, 5), (2, 7), (4, 6)]'], 'keys': ['BpSeq.all'], 'dual_mismatch': False, 'kind': 'fwd'}
ok = H.replay(rec)
print("property holds on this input (not reproduced)" if ok else "REPRODUCED", rec)
sys.exit(0 if ok else 1)
