#!/venv/bin/python
# Replay of a counterexample against the real code, in a plain interpreter.
# exit 1 = the property violation reproduces; exit 0 = it does not.
import sys, os
sys.path.insert(0, os.environ.get("VERIF_REPO_SRC", "/repo/src"))
import logging; logging.disable(logging.CRITICAL)

sys.path.insert(0, '/verif')
import harness.c01 as H
rec = {'p': [10, 4, 0, 2, 12, 8, 0, 6, 11, 1, 9, 5], 'outs': 5, 'problems': ['all[0]: decodes to [(1, 11), (2, 4), (5, 12), (6, 8), (9, 10)] instead of [(1, 10), (2, 4), (5, 12), (6, 8), (9, 11)]'], 'keys': ['BpSeq.all'], 'dual_mismatch': False, 'kind': 'fwd', 'id': [1, 2, [4, 6, 5, 1, 3, 2]]}
ok = H.replay(rec)
print("property holds on this input (not reproduced)" if ok else "REPRODUCED", rec)
sys.exit(0 if ok else 1)
