#!/venv/bin/python
# Replay of a counterexample against the real code, in a plain interpreter.
# exit 1 = the property violation reproduces; exit 0 = it does not.
import sys, os
sys.path.insert(0, os.environ.get("VERIF_REPO_SRC", "/repo/src"))
import logging; logging.disable(logging.CRITICAL)

sys.path.insert(0, '/verif')
import harness.c01 as H
rec = {'p': [4, 7, 5, 1, 3, 0, 2], 'outs': 5, 'problems': ['all[0]: decodes to [(1, 5), (2, 7), (3, 4)] instead of [(1, 4), (2, 7), (3, 5)]'], 'keys': ['BpSeq.all'], 'dual_mismatch': False, 'kind': 'fwd'}
ok = H.replay(rec)
print("property holds on this input (not reproduced)" if ok else "REPRODUCED", rec)
sys.exit(0 if ok else 1)
