#!/bin/bash
# Idempotent offline bootstrap of the overlay venv used by every check.
# /verif/.venv = venv created from /venv's interpreter, seeing /venv's site-packages
# (the repository's own environment, RNApolis installed editable from /repo) through a
# .pth file, plus crosshair-tool and z3-solver from the offline wheelhouse.
set -e
cd "$(dirname "$0")"
V=/verif/.venv
LOCK=/verif/.venv.lock
exec 9>"$LOCK"
flock 9
if [ -x "$V/bin/python" ] && "$V/bin/python" -c "import crosshair, z3, rnapolis" 2>/dev/null; then
    exit 0
fi
rm -rf "$V"
/venv/bin/python -m venv "$V"
SP=$("$V/bin/python" -c "import sysconfig; print(sysconfig.get_paths()['purelib'])")
printf '%s\n%s\n' "/venv/lib/python3.12/site-packages" "/repo/src" > "$SP/_overlay.pth"
PIP_NO_INDEX=1 "$V/bin/python" -m pip install -q --no-index --find-links /opt/veriftools/wheels crosshair-tool z3-solver >/dev/null
"$V/bin/python" -c "import crosshair, z3, rnapolis, pulp; print('bootstrap ok: crosshair', crosshair.__version__ if hasattr(crosshair,'__version__') else '', 'z3', z3.get_version_string())"
