"""Frame condition for history independence: a call must leave the module-level mutable state of the package unchanged.

State = module-level mutable containers, mutable default arguments of functions and methods, and the size of functools caches.
If every explored path of every entry point satisfies it, the outputs of a call cannot depend on the calls made before it in the same
process (induction over the call history: the state any call starts from is the import-time state)."""
import sys
import types

_SKIP = (types.ModuleType, types.FunctionType, types.BuiltinFunctionType, type, types.MethodType)


def _safe(v):
    try:
        if isinstance(v, dict):
            return "{" + ", ".join(sorted(f"{_safe(k)}: {_safe(x)}" for k, x in list(v.items()))) + "}"
        if isinstance(v, (set, frozenset)):
            return "{" + ", ".join(sorted(_safe(x) for x in list(v))) + "}"
        if isinstance(v, (list, tuple)):
            return "[" + ", ".join(_safe(x) for x in v) + "]"
        return repr(v)
    except Exception as e:  # noqa: BLE001
        return f"<unprintable {type(v).__name__}: {type(e).__name__}>"


_MUT = (dict, list, set, bytearray)


class _CacheSize:
    """functools cache of a module-level function: only its size is observable"""
    def __init__(self, f):
        self.f = f

    def __repr__(self):
        try:
            return "cache(currsize=%d)" % self.f.cache_info().currsize
        except Exception:  # noqa: BLE001
            return "cache(?)"


def _function_state(name, f, out):
    if hasattr(f, "cache_info"):
        out[name + ":cache"] = _CacheSize(f)
        f = getattr(f, "__wrapped__", None)
        if f is None:
            return
    for i, d in enumerate(getattr(f, "__defaults__", None) or ()):
        if isinstance(d, _MUT):
            out[f"{name}:default{i}"] = d
    for kk, d in (getattr(f, "__kwdefaults__", None) or {}).items():
        if isinstance(d, _MUT):
            out[f"{name}:kwdefault:{kk}"] = d


def mutable_globals(prefix="rnapolis"):
    out = {}
    for mname, mod in list(sys.modules.items()):
        if mod is None or not (mname == prefix or mname.startswith(prefix + ".")):
            continue
        for k, v in list(vars(mod).items()):
            if k.startswith("__"):
                continue
            if isinstance(v, type) and getattr(v, "__module__", None) == mname:
                # mutable default arguments of methods
                for ck, cv in list(vars(v).items()):
                    f = getattr(cv, "__func__", cv)
                    if isinstance(f, types.FunctionType):
                        _function_state(f"{mname}.{k}.{ck}", f, out)
                continue
            if isinstance(v, types.FunctionType) or hasattr(v, "cache_info"):
                if getattr(v, "__module__", None) == mname:
                    _function_state(f"{mname}.{k}", v, out)
                continue
            if isinstance(v, _SKIP):
                continue
            if isinstance(v, (dict, list, set, bytearray)) or type(v).__name__ in ("defaultdict", "deque", "OrderedDict", "Counter"):
                out[f"{mname}.{k}"] = v
    return out


def snapshot(prefix="rnapolis"):
    return {k: _safe(v) for k, v in mutable_globals(prefix).items()}


def diff(before, after):
    out = []
    for k in sorted(set(before) | set(after)):
        if before.get(k) != after.get(k):
            out.append((k, (before.get(k) or "<absent>")[:200], (after.get(k) or "<absent>")[:200]))
    return out
