import faulthandler
import importlib
import signal
import os
import sys
import traceback

sys.path.insert(0, os.path.dirname(os.path.dirname(os.path.abspath(__file__))))
from vlib.core import Report, finish, EXIT_HARNESS, REPO_SRC  # noqa: E402

sys.path.insert(0, REPO_SRC)


def main():
    faulthandler.register(signal.SIGUSR1, all_threads=True)
    if len(sys.argv) < 2:
        print("usage: check <id> quick|thorough")
        return 2
    pid = sys.argv[1].upper()
    tier = sys.argv[2] if len(sys.argv) > 2 else os.environ.get("VERIF_TIER", "quick")
    if tier not in ("quick", "thorough"):
        tier = "quick"
    mod = importlib.import_module("harness." + pid.lower())
    rep = Report(pid, tier, getattr(mod, "LEVEL", "model_checking"))
    try:
        mod.run(rep, tier)
    except Exception:  # harness failure is never a property verdict
        rep.harness_error("driver exception: " + traceback.format_exc()[-1500:])
    return finish(rep)


if __name__ == "__main__":
    sys.exit(main())
