"""E1: CrossHair runner.  One generated harness function per partition of the input space,
one `crosshair check` OS process per partition, run in parallel.

A partition counts as decided only when CrossHair prints "Confirmed over all paths"
(or returns a counterexample).  "Not confirmed" / "Unable to meet precondition" are
inconclusive.  Every path appends its realised input to a side log, which gives the
evidence its path counts and lets the driver cross-check exhaustiveness against an
independent count of the bounded input space.
"""
import json
import os
import re
import shutil
import subprocess
import sys
import tempfile
import time
from concurrent.futures import ThreadPoolExecutor

from .core import VERIF, REPO_SRC, ncpu

CROSSHAIR = os.path.join(VERIF, ".venv", "bin", "crosshair")

TEMPLATE_HEAD = '''import sys, os
sys.path.insert(0, {verif!r})
sys.path.insert(0, {repo_src!r})
from typing import List
from harness.e1_common import *
from harness.pairing_lib import valid
from {module} import *
'''

TEMPLATE_FN = '''
def {name}({sig}) -> bool:
    """
{pres}
    post: __return__
    """
    return {body}({call})

def {name}_twin({sig}) -> bool:
    """
{pres}
    post: __return__
    """
    {body}({call})
    return False
'''


def prefix_partitions(n, depth, pairings):
    """distinct consistent prefixes p[:depth] of the valid pairings, with their sizes"""
    cnt = {}
    for p in pairings:
        k = tuple(p[:depth])
        cnt[k] = cnt.get(k, 0) + 1
    return sorted(cnt.items(), key=lambda kv: -kv[1])


class Partition:
    def __init__(self, name, pres, expected=None, sig="p: List[int]", call="p", body="body", meta=None):
        self.name = name
        self.pres = pres
        self.expected = expected
        self.sig = sig
        self.call = call
        self.body = body
        self.meta = meta or {}
        self.status = None
        self.twin_status = None
        self.output = ""
        self.records = []
        self.cpu_s = 0.0


def _classify(out, rc):
    if "Confirmed over all paths" in out:
        return "confirmed"
    if re.search(r": error: ", out):
        if "false when calling" in out or "when calling" in out:
            return "refuted"
        return "error"
    if "Not confirmed" in out:
        return "not_confirmed"
    if "Unable to meet precondition" in out:
        return "unable"
    return "error" if rc not in (0,) else "unknown"


def _run_one(fpath, line, timeout, sidelog, env_extra):
    env = dict(os.environ)
    env["VERIF_SIDELOG"] = sidelog
    env["PYTHONHASHSEED"] = "0"
    env.update(env_extra or {})
    t = time.time()
    cmd = [CROSSHAIR, "check", "--report_all", "--analysis_kind", "PEP316", "--unblock", "EVERYTHING", "--per_condition_timeout", str(timeout),
           "--per_path_timeout", str(max(30, timeout // 4)), f"{fpath}:{line}"]
    try:
        r = subprocess.run(cmd, capture_output=True, text=True, timeout=timeout * 1.5 + 120, env=env)
        out, rc = r.stdout + r.stderr, r.returncode
    except subprocess.TimeoutExpired as e:
        out, rc = "TIMEOUT " + str(e), 124
    return out, rc, time.time() - t


def run(module, parts, per_condition_timeout=600, env_extra=None, procs=None):
    """Generate the harness file, run CrossHair on every partition (+ its vacuity twin)."""
    tmp = tempfile.mkdtemp(prefix="verif_e1_")
    try:
        src = TEMPLATE_HEAD.format(verif=VERIF, repo_src=REPO_SRC, module=module)
        for pt in parts:
            pres = "\n".join("    pre: " + x for x in pt.pres)
            src += TEMPLATE_FN.format(name=pt.name, pres=pres, sig=pt.sig, call=pt.call, body=pt.body)
        fpath = os.path.join(tmp, "harness_gen.py")
        with open(fpath, "w") as f:
            f.write(src)
        lines = src.split("\n")
        lineno = {}
        for i, l in enumerate(lines):
            m = re.match(r"def (\w+)\(", l)
            if m:
                lineno[m.group(1)] = i + 2  # a line inside the def

        def work(pt):
            sl = os.path.join(tmp, pt.name + ".log")
            out, rc, dt = _run_one(fpath, lineno[pt.name], per_condition_timeout, sl, env_extra)
            pt.status, pt.output, pt.cpu_s = _classify(out, rc), out.strip()[-1500:], dt
            if os.path.exists(sl):
                with open(sl) as f:
                    for ln in f:
                        try:
                            pt.records.append(json.loads(ln))
                        except Exception:
                            pass
            # vacuity twin: must be refuted (the body is reachable under the precondition)
            sl2 = os.path.join(tmp, pt.name + "_twin.log")
            out2, rc2, dt2 = _run_one(fpath, lineno[pt.name + "_twin"], min(per_condition_timeout, 120), sl2, env_extra)
            pt.twin_status = _classify(out2, rc2)
            pt.cpu_s += dt2
            return pt

        with ThreadPoolExecutor(max_workers=procs or ncpu()) as ex:
            list(ex.map(work, parts))
        return parts
    finally:
        shutil.rmtree(tmp, ignore_errors=True)


REPLAY_TMPL = '''
sys.path.insert(0, {verif!r})
import {module} as H
rec = {rec!r}
ok = H.replay(rec)
print("property holds on this input (not reproduced)" if ok else "REPRODUCED", rec)
sys.exit(0 if ok else 1)
'''


def collect(rep, parts, module, make_violation=None):
    """fold CrossHair results into the report: verdict per partition, side-log records,
    exhaustiveness cross-check, vacuity twins, counterexamples -> Violation objects"""
    from .core import Violation
    for pt in parts:
        rep.add(obligations=1, solver_s=pt.cpu_s)
        recs = pt.records
        distinct = {json.dumps(r.get("id", r.get("p"))) for r in recs}
        rep.add(states=len(distinct), transitions=len(recs))
        rep.cov.setdefault("partitions", []).append(
            {"name": pt.name, "verdict": pt.status, "twin": pt.twin_status, "paths": len(distinct), "cpu_s": round(pt.cpu_s, 1)})
        for r in recs[:1]:
            rep.sample({"partition": pt.name, "pre": pt.pres, "input": r.get("p"), "kind": r.get("kind"),
                        "problems": r.get("problems")})
        bad = [r for r in recs if r.get("keys") or r.get("dual_mismatch")]
        for r in bad:
            if r.get("dual_mismatch") and not r.get("keys"):
                rep.harness_error(f"{pt.name}: symbolic and native execution disagree on {r.get('p')}")
                continue
            key = r["keys"][0]
            if make_violation is not None:
                rep.violation(make_violation(r))
            else:
                rep.violation(Violation(key, (r.get("problems") or ["?"])[0],
                                        REPLAY_TMPL.format(verif=VERIF, module=module, rec=r), witness=r.get("p")))
        if pt.status == "confirmed":
            rep.add(discharged=1)
            if pt.expected is not None and len(distinct) != pt.expected:
                rep.harness_error(f"{pt.name}: CrossHair confirmed {len(distinct)} path classes, "
                                  f"independent count of the bounded space is {pt.expected}")
        elif pt.status == "refuted":
            rep.add(discharged=1)
            if not bad:
                rep.harness_error(f"{pt.name}: CrossHair reports a counterexample but no path recorded a problem: {pt.output[-300:]}")
        elif pt.status in ("not_confirmed", "unable", "unknown"):
            rep.add(undecided=1)
            rep.notes.append(f"{pt.name}: inconclusive ({pt.status}) after {pt.cpu_s:.0f}s")
        else:
            rep.harness_error(f"{pt.name}: crosshair error: {pt.output[-400:]}")
        if pt.twin_status == "refuted":
            rep.add(reachability_witnesses=1)
        else:
            rep.harness_error(f"{pt.name}: vacuity twin not refuted ({pt.twin_status})")
