"""Solver-driven enumeration of a bounded input family + native execution of a body.

Used for the structured families (inflated diagrams, padded / interleaved structures) where
every input is concretised before the real code runs anyway: z3 enumerates *all* models of
the family's validity formula (AllSAT with blocking clauses, so the family is covered
completely and without repetition; the count is cross-checked against an independent
count), and the body (real code + inner solver verdicts) runs natively in a process pool.
This is the "concretising mode" of DESIGN section 3: the solver contributes exhaustive
coverage of the family, the deciding verdicts are the inner z3 queries of the body.
"""
import importlib
import os
import time
from concurrent.futures import ProcessPoolExecutor

import z3

from .core import ncpu


def pairing_vars(n, tag="p"):
    P = [z3.Int(f"{tag}{i}") for i in range(n)]
    cons = []
    for i in range(n):
        cons += [P[i] >= 0, P[i] <= n, P[i] != i + 1]
        for j in range(n):
            cons.append(z3.Implies(P[i] == j + 1, P[j] == i + 1))
    return P, cons


def knotted_formula(P):
    n = len(P)
    alts = []
    for a in range(1, n + 1):
        for b in range(a + 1, n + 1):
            # a < b < P[a] < P[b]
            alts.append(z3.And(P[a - 1] > b, P[b - 1] > P[a - 1]))
    return z3.Or(alts) if alts else z3.BoolVal(False)


def narcs_formula(P, k):
    return z3.Sum([z3.If(P[i] > i + 1, 1, 0) for i in range(len(P))]) == k


def allsat(vars_, cons, limit=10 ** 6):
    """every model of cons projected on vars_ (list of z3 Int consts)"""
    s = z3.Solver()
    s.add(cons)
    out = []
    t = time.time()
    nq = 0
    while len(out) < limit:
        r = s.check()
        nq += 1
        if r != z3.sat:
            if r == z3.unknown:
                raise RuntimeError("allsat: unknown")
            break
        m = s.model()
        vals = [m.eval(v, model_completion=True).as_long() for v in vars_]
        out.append(vals)
        s.add(z3.Or([v != x for v, x in zip(vars_, vals)]))
    return out, nq, time.time() - t


def _work(job):
    module, body, args = job
    import harness.e1_common as ec
    mod = importlib.import_module(module)
    ec.RECORDS.clear()
    try:
        ok = getattr(mod, body)(*args)
        err = None
    except Exception as e:  # noqa: BLE001
        ok, err = False, f"{type(e).__name__}: {e}"
    return ok, list(ec.RECORDS), err


class NativePartition:
    """duck-types e1.Partition for e1.collect"""

    def __init__(self, name, pres, expected):
        self.name, self.pres, self.expected = name, pres, expected
        self.status = None
        self.twin_status = None
        self.records = []
        self.output = ""
        self.cpu_s = 0.0
        self.body = "native"
        self.meta = {}


def run_family(name, module, body, inputs, describe, expected=None, procs=None, chunksize=4):
    """inputs: list of argument tuples (already enumerated by allsat)"""
    pt = NativePartition(name, describe, expected)
    t = time.time()
    jobs = [(module, body, a) for a in inputs]
    errs = []
    with ProcessPoolExecutor(max_workers=procs or ncpu()) as ex:
        for ok, recs, err in ex.map(_work, jobs, chunksize=chunksize):
            pt.records += recs
            if err:
                errs.append(err)
    pt.cpu_s = time.time() - t
    if errs:
        pt.status, pt.output = "error", "; ".join(errs[:3])
    else:
        pt.status = "confirmed"   # every enumerated member of the family was executed to the end
    pt.twin_status = "refuted" if pt.records else "unable"
    return pt


def inflated_inputs(n, k, maxlen):
    """the family formula is a conjunction of two independent parts (knotted k-arc diagram on n positions; k stem lengths in 1..maxlen):
    each part is enumerated by AllSAT and the models are combined (a joint AllSAT over 10^4..10^5 models is quadratic in the blocking clauses)"""
    P, cons = pairing_vars(n)
    diagrams, nq1, dt1 = allsat(P, cons + [narcs_formula(P, k), knotted_formula(P)])
    L = [z3.Int(f"l{i}") for i in range(k)]
    lens, nq2, dt2 = allsat(L, [z3.And(x >= 1, x <= maxlen) for x in L])
    return [(d, l) for d in diagrams for l in lens], nq1 + nq2, dt1 + dt2


def family_inputs(kind, n, kmax):
    P, cons = pairing_vars(n)
    tails, nq1, dt1 = allsat(P, cons + [knotted_formula(P)])
    K = z3.Int("k")
    ks, nq2, dt2 = allsat([K], [K >= 0, K <= kmax])
    return [(kind, k[0], t) for k in ks for t in tails], nq1 + nq2, dt1 + dt2


def _cube_job(job):
    import sys
    sys.path.insert(0, "/verif")
    builder, args, nsplit, cube = job
    vs, cons = builder(*args)
    models, nq, dt = allsat(vs, cons + [v == x for v, x in zip(vs[:nsplit], cube)])
    return models, nq, dt


def allsat_split(builder, args, nsplit):
    """cube-and-conquer AllSAT: stage 1 enumerates the projections on the first `nsplit` variables (blocking clauses over those only),
    stage 2 enumerates every cube in parallel.  `builder(*args)` must return (vars, constraints) and be importable (it is re-run in workers)."""
    from .par import pmap, Crashed
    vs, cons = builder(*args)
    cubes, nq, dt = allsat(vs[:nsplit], cons)
    out = []
    for r in pmap(_cube_job, [(builder, args, nsplit, c) for c in cubes]):
        if isinstance(r, Crashed):
            raise RuntimeError(f"allsat cube crashed: {r.why}")
        out += r[0]
        nq += r[1]
        dt += r[2]
    return out, nq, dt


def pairings(n):
    """every valid pairing table on n positions (AllSAT; cube-and-conquer on p[0], p[1] for n >= 8)"""
    if n < 8:
        P, cons = pairing_vars(n)
        return allsat(P, cons)
    return allsat_split(pairing_vars, (n,), 2)
