"""process-parallel map that survives a worker dying (segfault / OOM kill): such an item is retried alone and, if it dies
again, reported as crashed instead of hanging the whole check (multiprocessing.Pool.map would wait forever)."""
import multiprocessing
from concurrent.futures import ProcessPoolExecutor
from concurrent.futures.process import BrokenProcessPool

from .core import ncpu


FRAME = {"paths": 0, "diffs": []}      # frame condition (vlib/frame.py) accumulated over all jobs of this check


def _with_frame(func, item):
    """run one job in the worker and return (result, frame statistics of the symbolic explorations it performed)"""
    import sys
    res = func(item)
    eng = sys.modules.get("symx.engine")
    stats = None
    if eng is not None and hasattr(eng, "FRAME_STATS"):
        stats = dict(eng.FRAME_STATS)
        eng.FRAME_STATS["paths"], eng.FRAME_STATS["diffs"] = 0, []
    return res, stats


class Crashed:
    def __init__(self, item, why):
        self.item, self.why = item, why


def pmap(func, items, procs=None):
    items = list(items)
    results = [None] * len(items)
    pending = list(range(len(items)))
    ctx = multiprocessing.get_context("fork")
    first = True
    while pending:
        workers = min(procs or ncpu(), len(pending)) if first else 1
        todo, pending = (pending, []) if first else ([pending[0]], pending[1:])
        with ProcessPoolExecutor(max_workers=workers, mp_context=ctx) as ex:
            futs = {i: ex.submit(_with_frame, func, items[i]) for i in todo}
            for i, f in futs.items():
                try:
                    results[i], stats = f.result()
                    if stats:
                        FRAME["paths"] += stats["paths"]
                        for d in stats["diffs"]:
                            if len(FRAME["diffs"]) < 5:
                                FRAME["diffs"].append({"job": repr(items[i])[:80], "diff": d})
                except BrokenProcessPool:
                    if first:
                        pending.append(i)
                    else:
                        results[i] = Crashed(items[i], "worker process died")
                except Exception as e:  # noqa: BLE001
                    results[i] = Crashed(items[i], f"{type(e).__name__}: {e}")
        first = False
    return results
