"""Common machinery: reports, evidence files, replay-before-report, known findings."""
import json
import os
import re
import subprocess
import sys
import time
import hashlib

VERIF = os.path.dirname(os.path.dirname(os.path.abspath(__file__)))
REPO = os.environ.get("VERIF_REPO", "/repo")
REPO_SRC = os.path.join(REPO, "src")
NATIVE_PY = os.path.join(VERIF, ".venv", "bin", "python")  # plain interpreter (no tracing), repo env + z3
EXIT_OK, EXIT_VIOLATION, EXIT_HARNESS = 0, 1, 3


def ncpu():
    try:
        return max(1, min(16, len(os.sched_getaffinity(0))))
    except Exception:
        return 8


class Violation:
    """A counterexample produced by a solver model (or a CrossHair path), with a
    self-contained replay script that exits 1 iff the real code misbehaves natively."""

    def __init__(self, key, what, replay_src, witness=None):
        self.key = key          # stable identifier: <function or call site>:<failing input class>
        self.what = what        # one line
        self.replay_src = replay_src
        self.witness = witness
        self.replay_path = None
        self.reproduced = None


class Report:
    def __init__(self, pid, tier, level="model_checking"):
        self.pid = pid
        self.tier = tier
        self.level = level
        self.seed = int(os.environ.get("VERIF_SEED", "0") or 0)
        self.t0 = time.time()
        self.cov = {
            "states": 0, "transitions": 0, "traces_validated_against_impl": 0,
            "samples": [], "obligations": 0, "discharged": 0, "undecided": 0,
            "solver_s": 0.0, "functions_encoded": [], "bounds": {}, "stubs": [],
            "reachability_witnesses": 0, "engines": [],
        }
        self.assumptions = []
        self.violations = []
        self.harness_errors = []
        self.notes = []

    # -- accumulation helpers
    def add(self, **kw):
        for k, v in kw.items():
            if isinstance(v, (int, float)) and not isinstance(v, bool):
                self.cov[k] = self.cov.get(k, 0) + v
            elif isinstance(v, list):
                self.cov.setdefault(k, [])
                for x in v:
                    if x not in self.cov[k]:
                        self.cov[k].append(x)
            elif isinstance(v, dict):
                self.cov.setdefault(k, {}).update(v)
            else:
                self.cov[k] = v

    def sample(self, s, cap=12):
        if len(self.cov["samples"]) < cap:
            self.cov["samples"].append(s)

    def assume(self, *texts):
        for t in texts:
            if t not in self.assumptions:
                self.assumptions.append(t)

    def violation(self, v):
        # de-duplicate by key+witness; keep a handful of witnesses per key (a broken tree can produce 10^5 of them)
        cnt = self.__dict__.setdefault("_vcount", {})
        seen = self.__dict__.setdefault("_vseen", set())
        sig = (v.key, repr(v.witness))
        cnt[v.key] = cnt.get(v.key, 0) + 1
        if sig in seen or cnt[v.key] > 5:
            return
        seen.add(sig)
        self.violations.append(v)

    def harness_error(self, msg):
        self.harness_errors.append(msg)

    def merge_stats(self, d):
        """merge a stats dict coming from a worker process"""
        for k in ("states", "transitions", "traces_validated_against_impl", "obligations",
                  "discharged", "undecided", "solver_s", "reachability_witnesses"):
            if k in d:
                self.cov[k] += d[k]
        for s in d.get("samples", []):
            self.sample(s)


def load_known():
    p = os.path.join(VERIF, "known_findings.json")
    if not os.path.exists(p):
        return []
    with open(p) as f:
        return json.load(f).get("findings", [])


def _slug(s):
    return re.sub(r"[^A-Za-z0-9_.-]+", "_", s)[:80]


REPLAY_HEADER = '''#!/venv/bin/python
# Replay of a counterexample against the real code, in a plain interpreter.
# exit 1 = the property violation reproduces; exit 0 = it does not.
import sys, os
sys.path.insert(0, os.environ.get("VERIF_REPO_SRC", "/repo/src"))
import logging; logging.disable(logging.CRITICAL)
'''


def run_replay(path, timeout=300):
    env = dict(os.environ)
    env["VERIF_REPO_SRC"] = REPO_SRC
    env.pop("PYTHONPATH", None)
    try:
        r = subprocess.run([NATIVE_PY, path], capture_output=True, text=True, timeout=timeout, env=env)
    except subprocess.TimeoutExpired:
        return None, "replay timeout"
    return r.returncode, (r.stdout + r.stderr)[-2000:]


def finish(rep):
    """Replay counterexamples, write evidence, print the verdict lines, return exit code."""
    known = [k for k in load_known() if k.get("property") == rep.pid and k.get("status") == "known"]
    known_keys = {k["key"]: k for k in known}
    exit_code = EXIT_OK
    try:
        from . import par as _par
        if _par.FRAME["paths"]:
            # history independence (C14): every symbolic path of this check left the package's module-level state unchanged?
            rep.cov["frame_condition"] = {"paths_checked": _par.FRAME["paths"], "paths_changing_module_state": _par.FRAME["diffs"],
                                          "note": "sufficient condition for independence of the call history; a failure here is a note, C14 decides"}
            if _par.FRAME["diffs"]:
                print(f"NOTE: module-level state changed across a call in {rep.pid}: {_par.FRAME['diffs'][0]}")
    except Exception:  # noqa: BLE001
        pass
    rdir = os.path.join(VERIF, "replays", rep.pid)
    os.makedirs(rdir, exist_ok=True)
    reported_known = set()
    nviol = 0
    lines = []
    # cap the number of replays (one per distinct key is what matters; keep a few witnesses)
    per_key = {}
    for v in rep.violations:
        per_key.setdefault(v.key, []).append(v)
    for key, vs in per_key.items():
        kept = vs[:3]
        any_repro = False
        for v in kept:
            h = hashlib.sha1((v.key + repr(v.witness)).encode()).hexdigest()[:10]
            v.replay_path = os.path.join(rdir, _slug(v.key) + "_" + h + ".py")
            with open(v.replay_path, "w") as f:
                f.write(REPLAY_HEADER + v.replay_src)
            rc, out = run_replay(v.replay_path)
            v.reproduced = (rc == 1)
            if v.reproduced:
                any_repro = True
            else:
                rep.harness_error(f"counterexample for {v.key} did not reproduce natively (rc={rc}): {v.what} :: {out[-300:]}")
        if not any_repro:
            continue
        v = next(x for x in kept if x.reproduced)
        if key in known_keys:
            if key not in reported_known:
                reported_known.add(key)
                lines.append(f"KNOWN-FINDING: property={rep.pid} {known_keys[key]['what']} [key={key}; {len(vs)} witness(es) this run, e.g. {v.replay_path}]")
        else:
            nviol += 1
            lines.append(f"VIOLATION property={rep.pid} replay={v.replay_path}")
            lines.append(f"  key={key} :: {v.what}")
            exit_code = EXIT_VIOLATION
    if rep.harness_errors and exit_code == EXIT_OK:
        exit_code = EXIT_HARNESS
    cov = rep.cov
    cov["solver_s"] = round(cov.get("solver_s", 0.0), 3)
    if not cov["samples"]:
        cov["samples"] = ["(no cases explored)"]
    cov["states"] = int(cov["states"])
    cov["transitions"] = int(cov["transitions"])
    cov["known_findings_seen"] = sorted(reported_known)
    cov["violation_keys"] = sorted(per_key.keys())
    cov["harness_errors"] = rep.harness_errors[:10]
    cov["notes"] = rep.notes
    ev = {
        "property_id": rep.pid, "tier": rep.tier, "seed": rep.seed, "level": rep.level,
        "coverage": cov, "assumptions": rep.assumptions,
        "wall_s": round(time.time() - rep.t0, 2), "violations": nviol,
    }
    os.makedirs(os.path.join(VERIF, "evidence"), exist_ok=True)
    with open(os.path.join(VERIF, "evidence", rep.pid + ".json"), "w") as f:
        json.dump(ev, f, indent=1, default=str)
    for l in lines:
        print(l)
    for e in rep.harness_errors[:10]:
        print("HARNESS-ERROR:", e)
    print(f"[{rep.pid} {rep.tier}] states={cov['states']} transitions={cov['transitions']} "
          f"obligations={cov['obligations']} discharged={cov['discharged']} undecided={cov['undecided']} "
          f"solver_s={cov['solver_s']} wall_s={ev['wall_s']} violations={nviol} "
          f"known={len(reported_known)} exit={exit_code}")
    return exit_code
