"""E3: direct SMT on artefacts captured from the real code.

The MILP that `BpSeq.convert_to_dot_bracket` formulates is handed to a `pulp.LpSolver`
subclass through the method's public `solver` parameter, translated generically
(variables with bounds/integrality, linear constraints, objective, sense) into z3 LIA and
solved there.  Every z3 object lives in a private Context so that the module can be used
from inside a CrossHair harness (under NoTracing) as well as natively.
"""
import itertools
import time

import pulp
import z3

from harness.pairing_lib import OPEN, crossing, stems_of, pairs_of, decode

STATS = {"queries": 0, "solver_s": 0.0, "unknown": 0, "lps": 0, "optimal_solutions": 0}


def _chk(s):
    t = time.time()
    r = s.check()
    STATS["queries"] += 1
    STATS["solver_s"] += time.time() - t
    if r == z3.unknown:
        STATS["unknown"] += 1
    return r


def lp_to_data(lp):
    """generic extraction of an LpProblem (plain Python data)"""
    vs = [(v.name, v.lowBound, v.upBound, v.cat) for v in lp.variables()]

    def aff(e):
        return ([(v.name, c) for v, c in e.items()], e.constant)
    cons = [(c.sense, aff(c)) for c in lp.constraints.values()]
    return {"vars": vs, "cons": cons, "obj": aff(lp.objective), "sense": lp.sense}


def _num(ctx, x):
    if isinstance(x, int) or float(x).is_integer():
        return z3.IntVal(int(x), ctx)
    return z3.RealVal(repr(float(x)), ctx)


def data_to_z3(data, ctx):
    vs = {}
    cons = []
    for n, lo, up, cat in data["vars"]:
        v = z3.Int(n, ctx) if cat == "Integer" else z3.Real(n, ctx)
        vs[n] = v
        if lo is not None:
            cons.append(v >= _num(ctx, lo))
        if up is not None:
            cons.append(v <= _num(ctx, up))

    def aff(a):
        terms = [_num(ctx, c) * vs[n] for n, c in a[0]]
        return (z3.Sum(terms) if terms else z3.IntVal(0, ctx)) + _num(ctx, a[1])
    for sense, a in data["cons"]:
        e = aff(a)
        cons.append(e == 0 if sense == 0 else (e <= 0 if sense == -1 else e >= 0))
    return vs, cons, aff(data["obj"])


def all_optimal(data, cap=64):
    """(optimum, list of all optimal solutions up to cap, complete?)"""
    ctx = z3.Context()
    vs, cons, obj = data_to_z3(data, ctx)
    o = z3.Optimize(ctx=ctx)
    o.add(cons)
    h = o.maximize(obj) if data["sense"] == pulp.LpMaximize else o.minimize(obj)
    r = _chk(o)
    if r != z3.sat:
        return None, [], False
    opt = o.upper(h) if data["sense"] == pulp.LpMaximize else o.lower(h)
    s = z3.Solver(ctx=ctx)
    s.add(cons)
    s.add(obj == opt)
    sols = []
    complete = False
    while len(sols) < cap:
        r = _chk(s)
        if r == z3.unsat:
            complete = True
            break
        if r != z3.sat:
            break
        m = s.model()
        sol = {n: m.eval(x, model_completion=True).as_long() for n, x in vs.items()}
        sols.append(sol)
        s.add(z3.Or([x != sol[n] for n, x in vs.items()] + [z3.BoolVal(False, ctx)]))
    STATS["optimal_solutions"] += len(sols)
    return opt, sols, complete


class CaptureSolver(pulp.LpSolver):
    """pulp solver stub: records the LP the real code built and answers with a prescribed
    behaviour: ('solution', dict) | ('raise',) | ('status', code)"""
    name = "verif-capture"

    def __init__(self, behaviour=None):
        super().__init__(msg=False)
        self.behaviour = behaviour
        self.data = None
        self.called = 0

    def available(self):
        return True

    def actualSolve(self, lp):
        self.called += 1
        self.data = lp_to_data(lp)
        STATS["lps"] += 1
        b = self.behaviour
        if b is None:
            opt, sols, _ = all_optimal(self.data, cap=1)
            b = ("solution", sols[0])
        if b[0] == "raise":
            raise pulp.PulpSolverError("injected solver fault")
        if b[0] == "status":
            lp.assignStatus(b[1])
            return b[1]
        sol = b[1]
        for v in lp.variables():
            v.varValue = sol[v.name]
        lp.assignStatus(pulp.LpStatusOptimal)
        return pulp.LpStatusOptimal


def spec_better_exists(stems, lv, nlevels=30):
    """deciding query of C02: is there a proper assignment over `nlevels` levels with a
    strictly larger objective than the one given?  returns 'unsat' (optimal), 'sat', 'unknown'
    (+ the better assignment when sat)"""
    R = len(stems)
    if R == 0:
        return "unsat", None
    ctx = z3.Context()
    a = [z3.Int(f"a{i}", ctx) for i in range(R)]
    s = z3.Solver(ctx=ctx)
    for i in range(R):
        s.add(a[i] >= 0, a[i] < nlevels)
    for i, j in itertools.combinations(range(R), 2):
        if crossing(stems[i][0], stems[j][0]):
            s.add(a[i] != a[j])
    obj = z3.Sum([z3.If(a[i] == 0, z3.IntVal(len(stems[i]), ctx), -a[i] * len(stems[i])) for i in range(R)])
    mine = sum((len(st) if l == 0 else -l * len(st)) for st, l in zip(stems, lv))
    s.add(obj > mine)
    r = _chk(s)
    if r == z3.sat:
        m = s.model()
        return "sat", [m.eval(x, model_completion=True).as_long() for x in a]
    return str(r), None


def milp_lemmas(data, stems):
    """formulation lemmas (reported, not failing by themselves): (a) feasible ∧ two crossing
    regions on one level: unsat; (b) feasible ∧ some region on != 1 level: unsat."""
    ctx = z3.Context()
    vs, cons, obj = data_to_z3(data, ctx)
    R = len(stems)
    K = max(int(n.split("_")[2]) for n in vs) + 1
    out = {}
    s = z3.Solver(ctx=ctx)
    s.add(cons)
    bad = []
    for i, j in itertools.combinations(range(R), 2):
        if crossing(stems[i][0], stems[j][0]):
            for k in range(K):
                bad.append(z3.And(vs[f"x_{i}_{k}"] == 1, vs[f"x_{j}_{k}"] == 1))
    s.push()
    s.add(z3.Or(bad + [z3.BoolVal(False, ctx)]))
    out["a"] = str(_chk(s))
    s.pop()
    s.add(z3.Or([z3.Sum([vs[f"x_{i}_{k}"] for k in range(K)]) != 1 for i in range(R)] + [z3.BoolVal(False, ctx)]))
    out["b"] = str(_chk(s))
    return out
