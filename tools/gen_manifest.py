#!/usr/bin/env python3
"""Regenerates /verif/MANIFEST.json from the table below (kept in one place so that it
stays valid while checks are being added)."""
import json
import os

V = os.path.dirname(os.path.dirname(os.path.abspath(__file__)))

MC = "model_checking"
CHECKS = {
    # id: (engine, category, level text, level note, technique, design_ref, has_thorough)
    "C01": ("E1+E3", MC,
            "bounded symbolic execution of the real BpSeq/DotBracket code with CrossHair over every valid pairing table up to N "
            "positions (every path class is compared with an independent decoder), the converse direction over every balanced "
            "string on a restricted alphabet, all 30 bracket types through the real filling routine with symbolic levels, and every "
            "optimal solution of the captured MILP computed by z3; the solver-free encoders (FCFS, list of all encodings) also natively on every "
            "pairing of 8-9 (thorough 10-11) positions enumerated by z3 AllSAT; holds for all inputs inside the stated bounds, says nothing outside",
            "trusts CrossHair's path exploration (cross-checked: number of path classes == independent count of the bounded space; "
            "every path re-executed natively), z3, the independent decoder in harness/pairing_lib.py; sequence letters concrete",
            "CrossHair symbolic execution (z3) of the real code, partitioned; captured MILP -> z3 LIA", "5/C01"),
    "C02": ("E1+E3", MC,
            "for every pairing table up to N positions (CrossHair) and every member of the inflated / padded / interleaved families (z3 AllSAT) the "
            "MILP built by the real code is captured, all its optimal solutions are enumerated by z3 and returned through the solver stub so that "
            "the real read-back and bracket filling run on each; the deciding verdict per resulting notation is the z3 query 'a proper assignment "
            "over 30 levels with a larger objective exists' = unsat; also run with the real default solver",
            "trusts z3 (Optimize + LIA), CrossHair's exploration (path-class count cross-checked), the reference conflict/stem definitions in "
            "harness/pairing_lib.py; assumes an external solver returns an optimum of the LP it is given",
            "captured MILP -> z3: enumerate all optima, unsat optimality query; CrossHair / z3 AllSAT outer exploration", "5/C02"),
    "C07": ("E1", MC,
            "CrossHair executes the real BpSeq.elements for every pairing table up to N positions (plus AllSAT-enumerated families) and an "
            "independent oracle re-derives stems, hairpins, loop closure, coverage of unpaired nucleotides and strand texts",
            "trusts CrossHair's exploration (count cross-checked, native re-execution), the oracle in harness/c07.py; the object's optimal "
            "dot-bracket is computed natively and injected (pulp cannot be traced)",
            "CrossHair symbolic execution of the real code, partitioned; z3 AllSAT families", "5/C07"),
    "C12": ("E1", MC,
            "one-operation inductive step: for every pairing table in the bound and each of the nine public operations, from a fresh object: "
            "answer == oracle, receiver unchanged, every later answer == fresh object's answer, operations on the returned structure do not reach "
            "back, the returned structure answers like a fresh object built from its entries, another object with the same pairs and other letters "
            "queried in between does not change the answers; CrossHair-traced for N<=6/7, z3-AllSAT + native for larger N; explicit histories of "
            "bounded length as a cross-check of the argument",
            "trusts the invariant argument (warm object answers like a cold one => histories of any length), CrossHair, z3 AllSAT",
            "CrossHair symbolic execution of one inductive step; z3 AllSAT enumeration for larger bounds", "5/C12"),
    "C13": ("E3", "fault_enumeration",
            "the space pairing table (N<=6/8) x entry point x solver configuration {HiGHS, default, none} x behaviour {raise, 4 non-optimal statuses, "
            "ok} x second call on the same object is one z3 formula, enumerated completely by AllSAT; each case runs the real code with the solver "
            "environment stubbed and is judged by independent oracles (lossless, == FCFS reference on fault, z3 optimality query when solved)",
            "trusts z3 AllSAT (count cross-checked), the stubs' fidelity to pulp's solver interface (PulpSolverError / status codes)",
            "z3 AllSAT enumeration of the fault space; native execution with solver stubs; z3 optimality query", "5/C13"),
    "C14": ("E1", MC,
            "set iteration order is a symbolic schedule: set/frozenset in rnapolis.common are replaced by a stand-in whose order for "
            "hash-randomised elements is any permutation chosen by symbolic ints; CrossHair explores pairing tables x schedules and every output "
            "must equal the real interpreter's; counterexamples are replayed with PYTHONHASHSEED 0..31 in fresh interpreters. E2 extensions: "
            "Mapping2D3D under every order of every set of rnapolis.tertiary; the real annotator.main() with all output options where the name of the "
            "temporary input copy is a symbolic string (outputs must be the same on every path); frame condition (module-level mutable state "
            "unchanged) on every symbolic path of the PDB reader, confirmed by a fresh-vs-history differential before it is reported. Partial",
            "assumes int/tuple-of-int sets iterate independently of the hash seed; set order inside annotator.find_pairs / the KD-tree (covered "
            "by C03's symbolic candidate order), state hidden in closures or C extensions, and the other command-line tools are outside",
            "CrossHair symbolic execution with hash order as symbolic schedule", "5/C14"),
    "C03": ("E2", MC,
            "the discrete logic of the real find_pairs is explored on abstracted geometry (free boolean per candidate contact / angle test, free "
            "real per torsion): for every combination z3 decides that each reported pair has two accepted contacts on its edges, the right "
            "cis/trans letter, exclusive edges, and that no free edge combination with two base-to-base contacts is left unreported; kernels on real "
            "symbolic geometry decide the contact test (distance 4.0, angles 50-130), detect_cis_trans and base_normal_vector. Partial",
            "two residues with 3 donor/acceptor atoms each; KD-tree, angle and torsion functions replaced by stubs / free values in the logic part; "
            "donor/acceptor/edge tables pinned in spec/tables.json",
            "symbolic execution of the real code on boolean / real proxies (own engine) + z3", "5/C03"),
    "C10": ("E2", MC,
            "concretising mode: every atom table of 2-3 (quick) / 2-4 atoms whose chain id, residue number, insertion code and serial range over "
            "values on both sides of each PDB limit is a model of one z3 formula, enumerated completely by AllSAT; the real parse_cif_atoms -> "
            "can_write_pdb / fit_to_pdb -> write_pdb -> parse_pdb_atoms pipeline (real pandas, real mmcif) runs on each and an independent oracle "
            "checks limits, unchanged atoms, one-to-one grouping-preserving renaming, unchanged-if-fitting and the write/read-back. A second "
            "formula enumerates tables at the refusal limits (61-64 chains, 9 998-10 001 residues in a chain, 99 996-99 998 atoms with contiguous "
            "or alternating chains): must fit / must refuse / either. Counterexamples are replayed alone and after every 2-atom table as "
            "predecessor (state kept between calls). Partial",
            "pandas cannot be executed on proxies: the solver contributes exhaustive coverage of the bounded table space, the code runs natively",
            "z3 AllSAT over the input formula + native execution with independent oracle", "5/C10"),
    "C11": ("E2", MC,
            "detect_saenger with symbolic one-letter names and class (symmetry under reversal, table agreement); lists produced by the real find_pairs "
            "on abstracted geometry (ordering, no repeats, Saenger class, BPh/BR class implied by an in-range donor->oxygen contact incl. merge rules, "
            "one class per kind per pair); find_stackings on three residues with symbolic gaps (each pair once, order, model filter). Partial",
            "two / three residue configurations; Zirbel table pinned in the harness; stubs as in C03",
            "symbolic execution of the real code on proxies (own engine) + z3", "5/C11"),
    "C04": ("E2", MC,
            "the real find_stackings runs on z3 reals (two residues, symbolic unit normals, centroid offset d along a frame axis, symbolic "
            "atom spread and translation, optional leading non-nucleotide residue); per explored path the obligations 'listed and outside the "
            "definition by margin' / 'not listed and inside by margin' / topology vs sign of the normals' dot product / lower residue first are "
            "decided by z3 NRA (unsat) for every geometry of the stated form; one configuration is preceded by a call on residues with the same "
            "identities and a distant partner (state kept between calls)",
            "KD-tree replaced by an exact stub; base normals injected; reals stand in for doubles with a 1e-6 band; centroid offset axis-aligned only; "
            "trusts z3 (two builds raced)",
            "symbolic execution of the real code on z3-real proxies (own engine), NRA obligations", "5/C04"),
    "C17": ("E2", MC,
            "the real find_clashes runs on symbolic geometry (2-3 atoms on a line with symbolic gaps), symbolic occupancies (or None), symbolic "
            "options (all 32) and is_nucleotide flags, residues in ascending or descending order or differing by insertion code only; obligations in "
            "margin form against the pairwise van-der-Waals definition, every listed atom belongs to the residue it is listed with; the real main() runs "
            "with its environment stubbed and up to 3 listed clashes with symbolic occupancy sums: printed maxima and CSV rows are compared with the "
            "listed clashes by z3",
            "KD-tree = exact stub honouring the radius the code passes; argparse/open/print/read_metadata/read_3d_structure stubbed in main(); "
            "occupancy exactly 0.0 outside the domain",
            "symbolic execution of the real code on z3 proxies (own engine), linear real arithmetic obligations", "5/C17"),
    "C18": ("E2", MC,
            "both torsion implementations, torsion_angle and Residue3D.chi/chi_class run on z3 reals for points constructed with a prescribed "
            "dihedral (6 free reals + translation); atan2 is never evaluated: the obligation (Y,X) = k(sin phi, cos phi), k>0 is decided by z3 NRA "
            "per explored path; agreement of the two implementations, reversal and mirroring (thorough) likewise; the torsion table of the second "
            "implementation on every window of 3 (thorough 2-4) residues of 1EHZ, with and without an alternate-location copy, against an "
            "independent dihedral (concretising mode)",
            "claim per frame: canonical frame (quick), the 6 signed axis permutations (thorough); dense rotations do not finish and are not "
            "claimed; reals for doubles; known finding: tertiary_v2 returns the negated dihedral (pinned by the test-suite)",
            "symbolic execution on z3-real proxies (own engine); NRA obligations raced on z3 5.1.0 / 4.8.12", "5/C18"),
    "C19": ("E2", MC,
            "the real unify_classification runs on every printable-ASCII label of length <= 7/8 (bounded symbolic string) and each path is "
            "compared with a finite reference table by two unsat queries; parse_unit_id/_process_interaction_line/parse_fr3d_output run on "
            "lines assembled from symbolic fields; parse_dssr_output runs on documents with symbolic LW / nt names",
            "strings are bounded char arrays over z3 Ints; functions are AST-instrumented at run time (f-strings, len/int/str, in, Enum[...]); "
            "open and orjson.loads stubbed; number fields without whitespace/'+'/'_'",
            "symbolic execution on bounded-string proxies (own engine) + z3 LIA", "5/C19"),
    "C06": ("E2", MC,
            "the input space (3 structures cut from 1ehz x gap detection x list of k<=3 base-pair entries over 4 residues + 1 absent residue, "
            "3 LW classes, 3 Saenger options) is one z3 formula enumerated completely by AllSAT (cube-and-conquer); the real Mapping2D3D runs "
            "on every model and an independent oracle checks numbering, matching, canonical-subset / kept-pair rules, per-strand text and "
            "extended rows clause by clause",
            "concretising mode: the solver contributes exhaustive duplicate-free coverage of the bounded input space, the real code runs natively; "
            "MILP back-end replaced by the exact z3 stub; entries repeating a pair+class with different Saenger labels excluded",
            "z3 AllSAT over the input formula + native execution with independent oracle", "5/C06"),
    "C08": ("E2", MC,
            "the real read_3d_structure/parse_pdb/parse_cif/filter_clashing_atoms/group_atoms run instrumented on PDB lines (independent emitter) "
            "and atom_site rows whose identity fields, model numbers and null-marker cells are bounded symbolic strings / ints; a reference reader "
            "runs on the same proxies in the same path; atom sets and residue fields are compared by z3. Partial: text / record layer",
            "names, coordinates and occupancies come from concrete tables (float() of symbolic text is not modelled); scipy KD-tree runs natively; "
            "mmcif tokenizer stubbed at the atom_site table",
            "symbolic execution on bounded-string proxies (own engine) + z3", "5/C08"),
    "C09": ("E2", MC,
            "symbolic atom fields go through the real parse_pdb_atoms, write_pdb/_format_pdb_atom_line, write_cif row mapping and parse_cif_atoms; "
            "per path z3 decides: fields read == fields written, every ATOM/HETATM/TER line is 80 columns with each slice equal to its field, "
            "MODEL/ENDMDL around every model and TER after every chain, and the cross paths keep every field (also for a row selection of a "
            "parsed table). Concretising complement: tables of up to 2 x 900 atoms (z3 AllSAT over atoms / models / chains / route) through the "
            "real pandas and the real mmcif writer. Partial: text / record layer",
            "pandas replaced by a record-level stand-in and io.StringIO / IoAdapterPy by stubs (their contracts are assumptions); numeric text from "
            "boundary tables; a chain's last atom never has serial 99999 (the TER serial would not fit)",
            "symbolic execution on bounded-string proxies (own engine) + z3", "5/C09"),
    "C15": ("E2", MC,
            "one symbolic ATOM/HETATM line through parser.parse_pdb and parser_v2.parse_pdb_atoms, one atom_site row through parser.parse_cif and "
            "parser_v2.parse_cif_atoms: per path z3 decides that chain, number, insertion code, names, coordinates and model agree; both "
            "is_connected implementations on the same symbolic O3'/P coordinates equal distance < 2.4 A (1e-6 band) and agree with each other exactly "
            "(thresholds as the exact rationals of the doubles the code computes). Partial",
            "pandas stand-in, adapter stub; residue grouping by pandas groupby and torsion magnitudes (C18) outside; chain ids non-blank",
            "symbolic execution on bounded-string / real proxies (own engine) + z3", "5/C15"),
    "C20": ("E2", MC,
            "copy_from_to / replace_value run on real mmcif DataContainer/DataCategory objects whose cells are bounded symbolic strings (adapter "
            "stubbed); per explored equality pattern z3 decides that only the target item changed, target == source (copy) or the first-seen "
            "injective image equal to the returned mapping (replace), absent category/source leaves the text untouched, also after earlier "
            "edits of the same content; main() runs on a fake file system (truncate on open-for-write, lazy reads), also in place, against the "
            "library result for the file's content",
            "data-model level: the mmcif tokenizer/writer are outside; at most as many distinct values as substitution characters",
            "symbolic execution on bounded-string proxies (own engine) + z3", "5/C20"),
    "C16": ("E1+E3", MC,
            "for every pairing table up to N positions (CrossHair) and the AllSAT families, the real all_dot_brackets list is compared with the "
            "Grundy specification by z3: each member satisfies spec (sat under its assignment), and the completeness query 'spec(a) and a differs "
            "from every member' is unsat; plus no repetition, optimal and FCFS notations are members, knot-free => single round string",
            "trusts z3 LIA, CrossHair's exploration, the reading of 'greedy-stable' as the Grundy condition",
            "CrossHair outer exploration; z3 unsat completeness query over level assignments", "5/C16"),
}

NOT_APPLICABLE = {
    "C05": "two-run relational property over the whole parse+annotate pipeline: needs a symbolic rotation (z3 NRA answers unknown "
           "at 12 free coordinates already) and passes through scipy's KD-tree and the mmcif tokenizer, which cannot be executed symbolically",
}
PENDING = "check not built yet in this revision (planned, see DESIGN.md section 5)"


def main():
    ids = [json.loads(l)["id"] for l in open(os.path.join(V, "properties.jsonl"))]
    checks = []
    for pid in ids:
        if pid not in CHECKS:
            continue
        eng, cat, text, note, tech, ref = CHECKS[pid][:6]
        checks.append({
            "property_id": pid,
            "quick_cmd": f"./check {pid} quick",
            "thorough_cmd": f"./check {pid} thorough",
            "evidence_file": f"/verif/evidence/{pid}.json",
            "replay_cmd_template": "./check --replay {path}",
            "engine": eng,
            "level_claimed": {"category": cat, "text": text, "design_ref": "DESIGN.md " + ref},
            "level_note": note,
            "technique": tech,
        })
    na = []
    for pid in ids:
        if pid in CHECKS:
            continue
        na.append({"property_id": pid, "reason": NOT_APPLICABLE.get(pid, PENDING)})
    man = {
        "version": 1,
        "setup_cmd": "./bootstrap.sh",
        "hooks": {
            "guard": "RNAPOLIS_VERIF",
            "enable": "no source hooks: checks instrument the functions' AST at run time and install stubs by attribute "
                      "assignment on the imported modules; RNAPOLIS_VERIF=1 is exported by ./check for completeness",
            "baseline_off_cmd": "cd /repo && /venv/bin/python -m pytest -ra -q -p no:cacheprovider --timeout=900 --continue-on-collection-errors",
            "source_commits": [],
            "add_only": True,
        },
        "engines": [
            {"name": "E1", "path": "vlib/e1.py", "serves_properties": [p for p in ids if p in CHECKS and "E1" in CHECKS[p][0]],
             "kind_free_text": "CrossHair 0.0.110 symbolic execution (z3) of the real Python code, one process per input-space partition"},
            {"name": "E2", "path": "symx/", "serves_properties": [p for p in ids if p in CHECKS and "E2" in CHECKS[p][0]],
             "kind_free_text": "own symbolic executor: real functions (AST-instrumented at run time) run on z3-backed proxy values "
                                "(reals, ints, bounded strings) with a re-execution DFS path explorer; obligations discharged by z3"},
            {"name": "E3", "path": "vlib/e3.py", "serves_properties": [p for p in ids if p in CHECKS and "E3" in CHECKS[p][0]],
             "kind_free_text": "MILP captured from the real convert_to_dot_bracket through its solver parameter, translated to z3 LIA"},
        ],
        "checks": checks,
        "not_applicable": na,
        "notes": "All checks: exit 0 = held within stated bounds (or only known findings), exit 1 + VIOLATION line = counterexample "
                 "that reproduced natively, exit 3 = harness error (never a property verdict). Known findings: known_findings.json.",
    }
    with open(os.path.join(V, "MANIFEST.json"), "w") as f:
        json.dump(man, f, indent=1)
    print("MANIFEST.json:", len(checks), "checks,", len(na), "not applicable/pending")


if __name__ == "__main__":
    main()
