#!/bin/bash
# tools/confirm_seed.sh <property id> <A|B> : confirm a sub-agent's change in its scratch worktree
# (applies, baseline 45 tests pass, demo exits 1 with / 0 without) and store it under seeded/<id>-<X>/
set -u
PID=$1; X=$2
WT=${3:-/tmp/wt_$PID}
OUT=$WT/_out
DEST=/verif/seeded/$PID-$X
cd "$WT" || exit 2
git checkout -q -- . || exit 2
git apply --check "$OUT/$X.diff" || { echo "patch does not apply"; exit 2; }
PYTHONPATH=$WT/src /venv/bin/python "$OUT/${X}_demo.py" >/dev/null 2>&1; d0=$?
git apply "$OUT/$X.diff"
PYTHONPATH=$WT/src /venv/bin/python "$OUT/${X}_demo.py" > "$OUT/${X}_demo.out" 2>&1; d1=$?
PYTHONPATH=$WT/src /venv/bin/python -m pytest -q -p no:cacheprovider --timeout=900 -x \
  --deselect tests/test_common.py::test_pseudoknot_order_assignment \
  --deselect tests/test_molecule_filter.py --deselect tests/test_rfam_folder.py \
  --deselect tests/test_transformer.py::test_copy_from_to > "$OUT/${X}_tests.out" 2>&1; t=$?
npass=$(grep -Eo '[0-9]+ passed' "$OUT/${X}_tests.out" | tail -1)
git checkout -q -- .
echo "$PID-$X: demo clean=$d0 patched=$d1 tests_rc=$t ($npass)"
if [ "$d0" = 0 ] && [ "$d1" = 1 ] && [ "$t" = 0 ] && [ "$npass" = "45 passed" ]; then
  mkdir -p "$DEST"
  cp "$OUT/$X.diff" "$DEST/patch.diff"; cp "$OUT/${X}_demo.py" "$DEST/demo.py"
  python3 - "$OUT/${X}_meta.json" "$DEST/meta.json" "$d0" "$d1" "$npass" <<'EOF'
import json, sys
m = json.load(open(sys.argv[1]))
m["confirmed"] = {"demo_exit_clean_tree": int(sys.argv[3]), "demo_exit_patched_tree": int(sys.argv[4]),
                  "baseline_tests_with_patch": sys.argv[5],
                  "ran": "git apply patch.diff in a scratch worktree; PYTHONPATH=<wt>/src /venv/bin/python -m pytest (45 baseline tests); demo.py with and without the patch"}
json.dump(m, open(sys.argv[2], "w"), indent=1)
EOF
  echo "stored $DEST"
else
  echo "NOT CONFIRMED"; tail -5 "$OUT/${X}_tests.out"; exit 1
fi
