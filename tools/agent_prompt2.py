#!/usr/bin/env python3
"""second-wave prompt: same task, names C and D, with the already-tried ideas listed so that new ones are different"""
import json, sys, glob, subprocess
pid = sys.argv[1]
base = subprocess.run([sys.executable, "/verif/tools/agent_prompt.py", pid], capture_output=True, text=True).stdout
base = base.replace("(call them A and B)", "(call them C and D)").replace("For each change X in (A, B)", "For each change X in (C, D)")
base = base.replace("A and B should break the property in different ways / at different code sites.", "C and D should break the property in different ways / at different code sites.")
base = base.replace("Report back briefly what A and B are", "Report back briefly what C and D are")
tried = []
for d in sorted(glob.glob(f"/verif/seeded/{pid}-*/meta.json")):
    m = json.load(open(d))
    tried.append("- " + m["summary"][:300].replace("\n", " "))
extra = ("\n\nIMPORTANT: other engineers already tried the following changes for this property; do NOT repeat them or close variants of them, "
         "find genuinely different failure mechanisms (other functions, other clauses of the property, other kinds of trigger):\n" + "\n".join(tried) +
         "\nPrefer mechanisms such as: state leaking between calls or objects, dependence on input order or on hash/iteration order, an off-by-one that needs "
         "a specific size or boundary value, a clause of the property that the obvious inputs never exercise, or two edits that are each harmless alone.\n")
print(base + extra)
