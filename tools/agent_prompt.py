#!/usr/bin/env python3
"""prints the prompt given to a mutation sub-agent for one property (only the property text)"""
import json, sys
pid = sys.argv[1]
for l in open('/verif/properties.jsonl'):
    p = json.loads(l)
    if p['id'] == pid:
        break
wt = f"/tmp/wt_{pid}"
print(f"""You are helping evaluate a verification effort for the Python library tzok/rnapolis-py (RNA bioinformatics: PDB/mmCIF parsing, base-pair annotation, BPSEQ/dot-bracket conversion). You have your own scratch git worktree of the repository at {wt} (source under {wt}/src/rnapolis, tests under {wt}/tests). Work ONLY inside {wt}. Do not read or touch /repo or /verif at all.

The library is supposed to satisfy this semantic property:

TITLE: {p['title']}
STATEMENT: {p['statement']}
QUANTIFIED OVER: {p['quantifier']['text']}

Your task: produce TWO independent, different, realistic code changes (call them A and B) to the library source under {wt}/src/rnapolis, each of which BREAKS this property while the code still imports/compiles and the existing test suite still passes. Think of the kind of subtle regression a maintainer could plausibly introduce (refactoring slip, off-by-one, wrong boundary, swapped arguments, missing copy, missed case, order dependence, two sites that each look fine alone ...). Prefer changes that need something specific to manifest — an unusual input, a particular boundary value, a multi-step sequence of calls, a specific configuration or fault, two cooperating sites — NOT ones that ordinary use or the existing tests would expose at once. Each change should be small (a few lines). A and B should break the property in different ways / at different code sites.

How to run the existing tests against your worktree (the library is installed in editable mode from /repo, so you MUST set PYTHONPATH so that your worktree's sources are used):
  cd {wt} && PYTHONPATH={wt}/src /venv/bin/python -m pytest -q -p no:cacheprovider --timeout=900
On the unmodified tree 45 tests pass and these 7 fail for unrelated reasons (network/missing tools); they may keep failing: tests/test_common.py::test_pseudoknot_order_assignment, tests/test_molecule_filter.py::test_filter_by_chains, tests/test_molecule_filter.py::test_filter_by_poly_types, tests/test_rfam_folder.py (3 tests), tests/test_transformer.py::test_copy_from_to. With each of your changes applied, the same 45 tests must still pass. There is no network access. The test suite takes about a minute.

For each change X in (A, B) deliver, in the directory {wt}/_out/ (create it):
  - X.diff : the change as a unified diff produced by `git -C {wt} diff` (relative to the unmodified worktree HEAD; source files only, it must apply with `git apply` to a clean checkout)
  - X_demo.py : a small standalone Python program (run as `PYTHONPATH=<tree>/src /venv/bin/python X_demo.py`) that demonstrates the property violation: it must exit with status 1 (and print what went wrong) when run against the changed tree and exit 0 against the unmodified tree. It must use only the library's public behaviour as described by the property (no reference to your patch).
  - X_meta.json : {{"property": "{pid}", "summary": "<what was changed>", "needs_to_manifest": "<what specific input/sequence/configuration is needed to see the violation>", "files": [..]}}
Apply only one change at a time when testing (use `git -C {wt} stash` / `git -C {wt} checkout -- src` to switch); at the end leave the worktree sources clean (unmodified) with only the _out directory added. Verify for each change yourself: (1) test suite: the 45 baseline tests pass; (2) demo exits 1 with the change, 0 without. Report back briefly what A and B are and confirm the verification you ran.""")
