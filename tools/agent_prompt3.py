#!/usr/bin/env python3
"""later-wave prompt: agent_prompt2 with other change names: agent_prompt3.py <pid> <X> <Y>"""
import sys, subprocess
pid, x, y = sys.argv[1:4]
p = subprocess.run([sys.executable, "/verif/tools/agent_prompt2.py", pid], capture_output=True, text=True).stdout
for a, b in [("(call them C and D)", f"(call them {x} and {y})"), ("For each change X in (C, D)", f"For each change X in ({x}, {y})"),
             ("C and D should break", f"{x} and {y} should break"), ("what C and D are", f"what {x} and {y} are")]:
    p = p.replace(a, b)
print(p)
