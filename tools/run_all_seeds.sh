#!/bin/bash
# runs every seeded change against the quick check of its property and records the outcome in seeded/<id>/meta.json ("verif_result")
cd /verif
for d in seeded/*/; do
  S=$(basename $d); PID=${S%%-*}
  out=$(tools/run_seed.sh $S quick 2>&1 | grep -v "^WARNING")
  rc=$(echo "$out" | grep -o "exit [0-9]*$" | head -1 | awk '{print $2}')
  key=$(grep -E "^  key=" /tmp/seed_$S.out | head -1 | cut -c1-200)
  python3 - "$d/meta.json" "$PID" "$rc" "$key" <<'PY'
import json, sys
p, pid, rc, key = sys.argv[1:5]
m = json.load(open(p))
m["verif_result"] = {"check": f"./check {pid} quick", "exit": int(rc) if rc.isdigit() else None,
                     "caught": rc == "1", "first_violation": key.strip()}
json.dump(m, open(p, "w"), indent=1)
PY
  echo "$S exit=$rc $key" | cut -c1-220
done
