#!/bin/bash
# tools/run_seed_scratch.sh <seed> [quick|thorough] [property id]: like run_seed.sh, but on a scratch worktree of /repo (under /tmp, removed
# afterwards), so that /repo stays untouched and other checks can run at the same time.  Evidence of the property is restored afterwards.
S=$1; TIER=${2:-quick}; PID=${3:-${S%%-*}}
WT=/tmp/seedwt_$S
cd /verif
git -C /repo worktree add --detach $WT HEAD >/dev/null 2>&1 || exit 2
git -C $WT apply /verif/seeded/$S/patch.diff || { git -C /repo worktree remove --force $WT; exit 2; }
cp evidence/$PID.json /tmp/ev_$PID.bak 2>/dev/null
VERIF_REPO=$WT PYTHONPATH=$WT/src ./check $PID $TIER > /tmp/seed_$S.out 2>&1; rc=$?
cp /tmp/ev_$PID.bak evidence/$PID.json 2>/dev/null
git -C /repo worktree remove --force $WT; git -C /repo worktree prune
echo "seed $S check $PID $TIER -> exit $rc"
grep -E "^VIOLATION|^KNOWN|^HARNESS|^\[" /tmp/seed_$S.out | head -6
