#!/bin/bash
# tools/run_seed.sh <seed dir name, e.g. C02-A> [quick|thorough] [property id to check (default: the seed's)]
S=$1; TIER=${2:-quick}; PID=${3:-${S%%-*}}
cd /verif
[ -z "$(git -C /repo status --porcelain)" ] || { echo "/repo not clean"; exit 2; }
git -C /repo apply /verif/seeded/$S/patch.diff || exit 2
cp evidence/$PID.json /tmp/ev_$PID.bak 2>/dev/null
./check $PID $TIER > /tmp/seed_$S.out 2>&1; rc=$?
git -C /repo checkout -- .
cp /tmp/ev_$PID.bak evidence/$PID.json 2>/dev/null
echo "seed $S check $PID $TIER -> exit $rc"
grep -E "^VIOLATION|^KNOWN|^HARNESS|^\[" /tmp/seed_$S.out | head -6
